#!/usr/bin/env python3
"""tools/trybenign.py <root> : every <root>/*/out/r*/patch.diff is a behaviour-preserving refactoring; apply each to a scratch copy of /repo
and run ALL checks: anything but exit 0 is reported (VIOLATION = false alarm of the machinery, exit 2 = dialect too narrow)"""
import subprocess, os, sys, shutil, tempfile, re, json, concurrent.futures
os.environ.setdefault("VERIF_CACHE", "/tmp/hannibal-vcache")  # memoize verifier runs by generated-file hash (corpus tools only)
ROOT = os.path.dirname(os.path.dirname(os.path.abspath(__file__)))
root = sys.argv[1]
props = [c["property_id"] for c in json.load(open(os.path.join(ROOT, "MANIFEST.json")))["checks"]]
jobs = []
for g in sorted(os.listdir(root)):
    od = os.path.join(root, g, "out")
    if not os.path.isdir(od): continue
    for r in sorted(os.listdir(od)):
        p = os.path.join(od, r, "patch.diff")
        if os.path.exists(p): jobs.append((g + "/" + r, p))
only = sys.argv[2:]
if only: jobs = [j for j in jobs if any(j[0].startswith(o) for o in only)]
def one(job):
    name, p = job
    td = tempfile.mkdtemp(prefix="hannibal-benign-")
    out = []
    try:
        rp = os.path.join(td, "r"); os.makedirs(rp)
        subprocess.run(["rsync", "-a", "--exclude", "target", "--exclude", ".git", "/repo/", rp + "/"], check=True)
        pr = subprocess.run(["patch", "-p1", "-s", "-i", p], cwd=rp, stdout=subprocess.PIPE, stderr=subprocess.STDOUT, text=True)
        if pr.returncode: return name, ["PATCH-FAILED " + pr.stdout[-100:]]
        def chk(prop):
            r = subprocess.run([os.path.join(ROOT, "check"), prop, "--repo", rp, "--no-evidence", "--no-replay"], cwd=ROOT, stdout=subprocess.PIPE, stderr=subprocess.STDOUT, text=True)
            if r.returncode == 0: return None
            lines = [l for l in r.stdout.split("\n") if l.startswith(("VIOLATION", "UNDECIDED"))]
            return "%s exit%d %s" % (prop, r.returncode, (lines[0][:260] if lines else r.stdout[-200:]))
        with concurrent.futures.ThreadPoolExecutor(max_workers=4) as ex:
            for res in ex.map(chk, props):
                if res: out.append(res)
        return name, out
    finally:
        shutil.rmtree(td, ignore_errors=True)
with concurrent.futures.ThreadPoolExecutor(max_workers=2) as ex:
    for name, out in ex.map(one, jobs):
        files = ",".join(sorted(set(re.findall(r"^\+\+\+ b/(\S+)", open([p for n, p in jobs if n == name][0]).read(), re.M))))
        print("%s [%s]: %s" % (name, files, "all 18 checks exit 0" if not out else ""))
        for o in out: print("    " + o)
