// ===== prelude/boxedfn.rs — calling the boxed closure objects of the closure-built handles =====
// `Box<dyn SenderFn<M>>::send`, `Box<dyn ForceSenderFn<M>>::send`: runs the closure literal `code()` over the submit closure it captured.
// The contract is the same spec function the lifted closure bodies are proved against (sender_fn_post), selected by `code()`.
impl<T> BoxedFn<T> {
    #[verifier::external_body] pub fn clone(&self) -> (r: Self) ensures r.captured() == self.captured(), r.code() == self.code(), r.cap0() == self.cap0(), r.cap1() == self.cap1(), r.cap2() == self.cap2(), r.flag() == self.flag() { unimplemented!() }
}
