// ===== prelude/svc.rs — stand-ins for the service registry (C08) =====
// the registry: `static REGISTRY: LazyLock<async_lock::RwLock<HashMap<TypeId, AnyBoxObj>>>`
// well-formedness: an entry under type_id::<A>() holds an Addr<A> (the only writers are the functions of this unit, which keep it)
pub uninterp spec fn addr_tid_of(k: int) -> int;
pub broadcast axiom fn addr_tid_axiom<A>() ensures #[trigger] addr_tid_of(type_id::<A>()) == type_id::<Addr<A>>();
pub open spec fn reg_wf(r: Map<int, AnyVal>) -> bool { forall|k: int| r.dom().contains(k) ==> (#[trigger] r[k]).tid == addr_tid_of(k) }
pub open spec fn reg_slots_known(w: &World) -> bool { forall|k: int| w.registry.dom().contains(k) ==> w.slots.dom().contains((#[trigger] w.registry[k]).slot) }
pub struct RegistryLock {}
pub fn registry_lock() -> RegistryLock { RegistryLock {} }
#[verifier::external_body] pub struct WriteGuard { x: u8 }
#[verifier::external_body] pub struct ReadGuard { x: u8 }
// acquiring the lock: others ran before we got it, so the registry is whatever they left (well-formed); from now on it is ours.
// Guards released by scope end are not tracked: acquiring again simply starts a new section (everything known about the registry
// is lost, which is what makes a check-then-act split unprovable); holding two guards at once would be a deadlock, not a C08 matter
pub open spec fn lock_acquired(pre: &World, post: &World) -> bool {
    &&& *post == World { registry: post.registry, reg_acq: post.registry, locked: true, slots: post.slots, ..*pre }
    &&& reg_wf(post.registry) && reg_slots_known(post)
    &&& pre.slots.dom().subset_of(post.slots.dom())
    &&& forall|s: int| #![auto] pre.slots.dom().contains(s) && pre.slots[s].resolved ==> post.slots[s].resolved   // a terminated actor stays terminated
}
impl RegistryLock {
    #[verifier::external_body]
    pub fn write(&self, Tracked(w): Tracked<&mut World>) -> (g: WriteGuard)
        ensures lock_acquired(old(w), final(w))
    { unimplemented!() }
    #[verifier::external_body]
    pub fn read(&self, Tracked(w): Tracked<&mut World>) -> (g: ReadGuard)
        ensures lock_acquired(old(w), final(w))
    { unimplemented!() }
    // try_read may fail spuriously under contention
    #[verifier::external_body]
    pub fn try_read(&self, Tracked(w): Tracked<&mut World>) -> (g: Option<ReadGuard>)
        ensures g is Some ==> lock_acquired(old(w), final(w)), g is None ==> same_world(old(w), final(w))
    { unimplemented!() }
}
// dropping a guard explicitly releases the lock; whatever was known about the registry is lost at the next acquisition
#[verifier::external_body]
pub fn vdrop_write(g: WriteGuard, Tracked(w): Tracked<&mut World>) requires old(w).locked ensures *final(w) == (World { locked: false, ..*old(w) }) { unimplemented!() }
impl ReadGuard {
    #[verifier::external_body]
    pub fn get(&self, key: &TypeIdV, Tracked(w): Tracked<&mut World>) -> (r: Option<&AnyBoxObj>)
        requires old(w).locked,                                                                                               // @ob lock.registry-read-under-lock C08
        ensures r is Some <==> old(w).registry.dom().contains(key.id()), r is Some ==> r->0.val() == old(w).registry[key.id()], same_world(old(w), final(w))
    { unimplemented!() }
}
impl WriteGuard {
    #[verifier::external_body]
    pub fn get(&self, key: &TypeIdV, Tracked(w): Tracked<&mut World>) -> (r: Option<&AnyBoxObj>)
        requires old(w).locked,                                                                                               // @ob lock.registry-read-under-lock C08
        ensures r is Some <==> old(w).registry.dom().contains(key.id()), r is Some ==> r->0.val() == old(w).registry[key.id()], same_world(old(w), final(w))
    { unimplemented!() }
    #[verifier::external_body]
    pub fn get_mut(&mut self, key: &TypeIdV, Tracked(w): Tracked<&mut World>) -> (r: Option<&AnyBoxObj>)
        requires old(w).locked,                                                                                               // @ob lock.registry-read-under-lock C08
        ensures r is Some <==> old(w).registry.dom().contains(key.id()), r is Some ==> r->0.val() == old(w).registry[key.id()], same_world(old(w), final(w))
    { unimplemented!() }
    #[verifier::external_body]
    pub fn insert(&mut self, key: TypeIdV, v: AnyBoxObj, Tracked(w): Tracked<&mut World>) -> (r: Option<AnyBoxObj>)
        requires old(w).locked,                                                                                               // @ob lock.registry-written-under-lock C08
        ensures *final(w) == (World { registry: old(w).registry.insert(key.id(), v.val()), reg_evictions: old(w).reg_evictions + evicts(old(w), key.id()), ..*old(w) }),
                r is Some <==> old(w).registry.dom().contains(key.id()), r is Some ==> r->0.val() == old(w).registry[key.id()]
    { unimplemented!() }
    // HashMap::entry(k).or_insert(v): inserts only if the key is vacant; an occupied entry (even of a terminated instance) is left as it is
    #[verifier::external_body]
    pub fn entry_or_insert(&mut self, key: TypeIdV, v: AnyBoxObj, Tracked(w): Tracked<&mut World>) -> (r: AnyBoxObj)
        requires old(w).locked,                                                                                               // @ob lock.registry-written-under-lock C08
        ensures *final(w) == (World { registry: if old(w).registry.dom().contains(key.id()) { old(w).registry } else { old(w).registry.insert(key.id(), v.val()) }, ..*old(w) }),
                r.val() == final(w).registry[key.id()]      // (the real method hands out `&mut` to the entry: what is in the slot after the call)
    { unimplemented!() }
    #[verifier::external_body]
    pub fn remove(&mut self, key: &TypeIdV, Tracked(w): Tracked<&mut World>) -> (r: Option<AnyBoxObj>)
        requires old(w).locked,                                                                                               // @ob lock.registry-written-under-lock C08
        ensures *final(w) == (World { registry: old(w).registry.remove(key.id()), reg_evictions: old(w).reg_evictions + evicts(old(w), key.id()), ..*old(w) }),
                r is Some <==> old(w).registry.dom().contains(key.id()), r is Some ==> r->0.val() == old(w).registry[key.id()]
    { unimplemented!() }
    #[verifier::external_body]
    pub fn remove_entry(&mut self, key: &TypeIdV, Tracked(w): Tracked<&mut World>) -> (r: Option<(TypeIdV, AnyBoxObj)>)
        requires old(w).locked,                                                                                               // @ob lock.registry-written-under-lock C08
        ensures *final(w) == (World { registry: old(w).registry.remove(key.id()), reg_evictions: old(w).reg_evictions + evicts(old(w), key.id()), ..*old(w) }),
                r is Some <==> old(w).registry.dom().contains(key.id()), r is Some ==> ({ let p = r.unwrap(); p.1.val() == old(w).registry[key.id()] && p.0.id() == key.id() })
    { unimplemented!() }
}
pub enum ActorError { ServiceStillRunning, AlreadyStopped, Other }

pub trait Service: Actor + Default {}
