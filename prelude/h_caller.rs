// ===== prelude/h_caller.rs — the boxed closure kinds of Caller / WeakCaller =====
pub struct CallTag; pub struct DownTag; pub struct UpTag;
// what the call closure of a Caller does when called (contract = lifted body Caller__new__closure0)
pub open spec fn caller_fn_post<R>(chan: int, mid: int, pre: &World, post: &World, r: &Result<R, ActorError>) -> bool {
    &&& fresh_slot(post.last_slot, pre)
    &&& payload_desc(task_uid(Caller__new__closure0__closure0__code(), mid, post.last_slot)) == (PayloadDesc { code: Caller__new__closure0__closure0__code(), mid: mid, slot: post.last_slot })
    &&& (*r is Ok ==> post.trace == pre.trace.push(Ev::Enq { chan: chan, pid: task_uid(Caller__new__closure0__closure0__code(), mid, post.last_slot), force: false }).push(Ev::OsRecv { slot: post.last_slot }))
    &&& (*r is Ok ==> rid(&r->Ok_0) == slot_value(post.last_slot))
    &&& (*r is Ok ==> slot_answered(post.last_slot))
    &&& (*r is Err ==> post.trace == pre.trace || post.trace == pre.trace.push(Ev::Enq { chan: chan, pid: task_uid(Caller__new__closure0__closure0__code(), mid, post.last_slot), force: false }).push(Ev::OsRecv { slot: post.last_slot }))
}
impl<M: Message> BoxedFn<(CallTag, M)> {
    #[verifier::external_body]
    pub fn call(&self, msg: M, Tracked(w): Tracked<&mut World>) -> (r: Result<M::Response, ActorError>)
        ensures self.code() == Caller__new__closure0__code() ==> caller_fn_post(self.cap0(), mid_of(&msg), old(w), final(w), &r)
    { unimplemented!() }
}
pub open spec fn upgraded_caller<M: Message>(f_cap0: int, f_cap1: int, r: &Option<Caller<M>>) -> bool {
    &&& (*r is Some ==> r->0.wf() && r->0.chan() == f_cap0 && r->0.id.0 as int == f_cap1)
    &&& (*r is Some) == both_alive(f_cap0)
}
impl<M: Message> BoxedFn<(UpTag, M)> {
    #[verifier::external_body]
    pub fn upgrade(&self) -> (r: Option<Caller<M>>) ensures upgraded_caller(self.cap0(), self.cap1(), &r) { unimplemented!() }
}
impl<M: Message> BoxedFn<(DownTag, M)> {
    #[verifier::external_body]
    pub fn downgrade(&self) -> (r: WeakCaller<M>)
        ensures r.upgrade.captured() == self.captured(), r.upgrade.cap0() == self.cap0(), r.upgrade.cap1() == self.cap1(), r.upgrade.code() == self.cap2(), r.id.0 as int == self.cap1()
    { unimplemented!() }
}
