// ===== prelude/world.rs — ghost world threaded through every traced operation (DESIGN §5.1) =====
// a `running` slot: the oneshot whose Shared receiver every Addr / WeakAddr / Context holds.
//   resolved: the inner oneshot has a result (notifier fired, or was dropped un-fired) — this is `terminated`
//   observed: some Shared handle's poll has driven the inner receiver to completion (state COMPLETE)
pub struct Slot { pub resolved: bool, pub observed: bool }
pub struct AnyVal { pub tid: int, pub slot: int, pub cid: int }    // abstract content of a type-erased box holding an Addr
pub enum TaskSt { Held, Detached }
pub struct World {
    pub lc: Lc,                        // lifecycle automaton state of the actor task under proof
    pub trace: Seq<Ev>,                // its event trace (lc is the fold of `step` over it, by construction of the stand-ins)
    pub slots: Map<int, Slot>,         // running slots
    pub registry: Map<int, AnyVal>,    // the service registry, keyed by type_id::<A>()
    pub reg_acq: Map<int, AnyVal>,     // the registry as it was when the lock was last acquired
    pub locked: bool,                  // this task holds the registry lock
    pub tasks: Map<int, TaskSt>,       // runtime tasks spawned so far: handle still held / detached
}
pub open spec fn emits(pre: &World, post: &World, e: Ev) -> bool {
    *post == World { lc: step(pre.lc, e), trace: pre.trace.push(e), ..*pre }
}
pub open spec fn same_world(pre: &World, post: &World) -> bool { *post == *pre }

#[verifier::external_body]
pub fn vpanic<T>() -> (r: T) ensures false { unimplemented!() }

// future stand-ins (rules A2, A4): a future value has a precondition for being driven, a completion relation,
// an effect when it is dropped un-completed, and a ghost point in time at which it becomes ready (C11 only)
pub trait VFuture: Sized {
    type Output;
    spec fn pre(&self, w: &World) -> bool;
    spec fn done(&self, w0: &World, w1: &World, out: &Self::Output) -> bool;
    spec fn dropped(&self, w0: &World, w1: &World) -> bool;
    spec fn ready_at(&self) -> nat;
    fn await_(self, Tracked(w): Tracked<&mut World>) -> (r: Self::Output)
        requires self.pre(old(w)),
        ensures self.done(old(w), final(w), &r);
}
pub enum Sel<X, Y> { A(X), B(Y), Complete }
// futures::select! over two freshly created, fused futures: exactly one arm's future completes, the other is dropped
// un-run; the winner was ready no later than the loser; `complete` is unreachable because neither is terminated.
#[verifier::external_body]
pub fn select2<FA: VFuture, FB: VFuture>(a: FA, b: FB, Tracked(w): Tracked<&mut World>) -> (r: Sel<FA::Output, FB::Output>)
    requires a.pre(old(w)), b.pre(old(w)),
    ensures
        r is A ==> exists|m: World| #![auto] a.done(old(w), &m, &r->A_0) && b.dropped(&m, final(w)) && a.ready_at() <= b.ready_at(),
        r is B ==> exists|m: World| #![auto] b.done(old(w), &m, &r->B_0) && a.dropped(&m, final(w)) && b.ready_at() <= a.ready_at(),
        !(r is Complete),
{ unimplemented!() }

// `fut.map(Ok)` (rule F2)
pub struct MapOk<F> { pub inner: F }
impl<F: VFuture> VFuture for MapOk<F> {
    type Output = DynResult<F::Output>;
    open spec fn pre(&self, w: &World) -> bool { self.inner.pre(w) }
    open spec fn done(&self, w0: &World, w1: &World, out: &Self::Output) -> bool { out is Ok && self.inner.done(w0, w1, &out->Ok_0) }
    open spec fn dropped(&self, w0: &World, w1: &World) -> bool { self.inner.dropped(w0, w1) }
    open spec fn ready_at(&self) -> nat { self.inner.ready_at() }
    fn await_(self, Tracked(w): Tracked<&mut World>) -> (r: Self::Output) { Ok(self.inner.await_(Tracked(w))) }
}
pub trait VFutureExt: VFuture { fn map_ok(self) -> (r: MapOk<Self>) ensures r.inner == self; }
impl<F: VFuture> VFutureExt for F { fn map_ok(self) -> (r: MapOk<Self>) { MapOk { inner: self } } }

// futures_timer::Delay (ghost duration only)
pub struct Delay { pub d: u64 }
impl Delay { pub fn new(d: u64) -> (r: Delay) ensures r.d == d { Delay { d } } }
impl VFuture for Delay {
    type Output = ();
    open spec fn pre(&self, w: &World) -> bool { true }
    open spec fn done(&self, w0: &World, w1: &World, out: &()) -> bool { same_world(w0, w1) }
    open spec fn dropped(&self, w0: &World, w1: &World) -> bool { same_world(w0, w1) }
    open spec fn ready_at(&self) -> nat { self.d as nat }
    #[verifier::external_body]
    fn await_(self, Tracked(w): Tracked<&mut World>) -> (r: ()) { unimplemented!() }
}

// errors
#[verifier::external_body] pub struct DynErr { e: Box<dyn std::error::Error + Send + Sync> }
pub type DynResult<T> = Result<T, DynErr>;

// std::time::Duration as a ghost-comparable number (rule T2)
pub fn duration_from_secs(s: u64) -> (r: u64) ensures r == s { s }
pub fn duration_from_millis(ms: u64) -> (r: u64) ensures r == ms { ms }
