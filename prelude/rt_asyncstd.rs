pub open spec fn rt_drop_is_detach() -> bool { true }   // async_std::task::JoinHandle: dropping the handle detaches the task
