// replay probe for C17: consume() on an actor that already terminated gracefully must still hand back the final value
use hannibal::prelude::*;
#[derive(Default, Debug)]
struct A1 { n: u32 }
impl Actor for A1 {}
struct Bye; impl Message for Bye { type Response = (); }
impl Handler<Bye> for A1 { async fn handle(&mut self, c: &mut Context<Self>, _m: Bye) { self.n += 1; c.stop().unwrap(); } }
#[tokio::main]
async fn main() {
    let owning = A1::default().spawn_owning();
    owning.call(Bye).await.unwrap();
    let a = owning.as_addr().clone(); let graceful = a.await.is_ok();
    let r = owning.consume().await.map(|a| a.n);
    println!("graceful termination observed = {graceful}; consume() -> {r:?} (statement: Ok(1))");
    if graceful && r != Ok(1) { println!("REPRODUCED consume() loses the final value of a gracefully terminated actor"); } else { println!("not reproduced"); }
}
