#!/usr/bin/env python3
"""consistency of tags and unit lists: every obligation tagged for property P must live in a unit that P's check runs"""
import subprocess, os, json, re, sys, tempfile, shutil
ROOT = os.path.dirname(os.path.dirname(os.path.abspath(__file__)))
cfg = json.load(open(os.path.join(ROOT, "config.json")))
td = tempfile.mkdtemp(prefix="hannibal-tag-")
bad = 0
try:
    for u, uc in cfg["units"].items():
        out = os.path.join(td, u + ".rs")
        subprocess.run([os.path.join(ROOT, "hx/target/release/hx"), "--unit", os.path.join(ROOT, uc["unit"]), "--root", ROOT, "--repo", "/repo", "--out", out, "--map", out + ".json", "--params", os.path.join(ROOT, "contracts/PARAMS.json")], stdout=subprocess.PIPE, stderr=subprocess.PIPE)
        tags = {}
        mapj = json.load(open(out + ".json"))
        real = [(f["gen_start"], f["gen_end"]) for f in mapj["functions"] if f["kind"] in ("fn", "asyncblock")]
        for ln, l in enumerate(open(out).read().split("\n"), 1):
            m = re.search(r"// @ob (\S+) ([A-Z0-9,\-]+)", l)
            # only clauses of functions whose body is verified in this unit (not preludes, not stubs: those are assumptions here)
            if m and any(a - 3 <= ln <= b for a, b in real):
                for p in m.group(2).split(","):
                    if p != "-": tags.setdefault(p, set()).add(m.group(1))
        for p, obs in sorted(tags.items()):
            if p in cfg["properties"] and u not in cfg["properties"][p]["units"]:
                bad += 1
                print("unit %s carries %d obligation(s) tagged %s but is not in %s's unit list: %s" % (u, len(obs), p, p, ", ".join(sorted(obs))[:200]))
finally:
    shutil.rmtree(td, ignore_errors=True)
print("tagcheck:", "consistent" if not bad else "%d gaps" % bad)
sys.exit(1 if bad else 0)
