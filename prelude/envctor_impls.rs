// ===== prelude/envctor_impls.rs — Default of the extracted field types (models of `Default::default()` / `#[derive(Default)]`) =====
impl DefaultV for ContextID { uninterp spec fn is_default(&self) -> bool; #[verifier::external_body] fn default_value() -> (r: Self) { unimplemented!() } }   // a fresh id (AtomicU64::fetch_add)
impl DefaultV for EnvironmentConfig { open spec fn is_default(&self) -> bool { self.timeout is None && !self.fail_on_timeout } fn default_value() -> (r: Self) { EnvironmentConfig { timeout: None, fail_on_timeout: false } } }
