#!/usr/bin/env python3
"""run every independently written property-breaking change stored under /verif/seeded against the check of the property it breaks
(on a scratch copy of /repo, never in /repo) and record what the check says in the seed's meta.json (`check_verdict`).
  tools/seeded.py [--write] [seed-name-prefix ...]
verdicts: detected (exit 1 with a VIOLATION line), undecided (exit 2: outside the extractor's dialect / lost anchor; never an alarm),
          MISSED (exit 0 on a tree that breaks the property)."""
import subprocess, os, sys, json, shutil, tempfile, re, concurrent.futures
os.environ.setdefault("VERIF_CACHE", "/tmp/hannibal-vcache")  # memoize verifier runs by generated-file hash (corpus tools only)
ROOT = os.path.dirname(os.path.dirname(os.path.abspath(__file__)))
SEEDED = os.path.join(ROOT, "seeded")


def run_one(name):
    d = os.path.join(SEEDED, name)
    meta = json.load(open(os.path.join(d, "meta.json")))
    prop = meta["breaks_property"]
    td = tempfile.mkdtemp(prefix="hannibal-seeded-")
    try:
        rp = os.path.join(td, "repo")
        os.makedirs(rp)
        subprocess.run(["rsync", "-a", "--exclude", "target", "--exclude", ".git", "/repo/", rp + "/"], check=True)
        p = subprocess.run(["patch", "-p1", "-s", "-i", os.path.join(d, "patch.diff")], cwd=rp, stdout=subprocess.PIPE, stderr=subprocess.STDOUT, text=True)
        if p.returncode != 0:
            return name, prop, "PATCH-FAILED", [], p.stdout[-300:]
        r = subprocess.run([os.path.join(ROOT, "check"), prop, "--repo", rp, "--no-evidence", "--no-replay"], cwd=ROOT, stdout=subprocess.PIPE, stderr=subprocess.STDOUT, text=True)
        viol = [l for l in r.stdout.split("\n") if l.startswith("VIOLATION")]
        obs = sorted({re.search(r"obligation=(\S+)", l).group(1) for l in viol})
        und = [l for l in r.stdout.split("\n") if l.startswith("UNDECIDED")]
        if r.returncode == 1 and viol:
            return name, prop, "detected", obs, ""
        if r.returncode == 2:
            return name, prop, "undecided", [], (und[0][len("UNDECIDED "):][:400] if und else "")
        if r.returncode == 0:
            return name, prop, "MISSED", [], ""
        return name, prop, "error-exit-%d" % r.returncode, [], r.stdout[-300:]
    finally:
        shutil.rmtree(td, ignore_errors=True)


def main():
    args = sys.argv[1:]
    write = "--write" in args
    args = [a for a in args if a != "--write"]
    names = sorted(n for n in os.listdir(SEEDED) if os.path.exists(os.path.join(SEEDED, n, "meta.json")))
    if args:
        names = [n for n in names if any(n.startswith(a) for a in args)]
    bad = 0
    with concurrent.futures.ThreadPoolExecutor(max_workers=5) as ex:
        for name, prop, verdict, obs, detail in ex.map(run_one, names):
            print("%-16s %-4s %-10s %s" % (name, prop, verdict, ",".join(obs) if obs else detail[:200]))
            bad += verdict not in ("detected", "undecided")
            if write:
                mp = os.path.join(SEEDED, name, "meta.json")
                meta = json.load(open(mp))
                meta["check_verdict"] = {"property": prop, "verdict": verdict, "failed_obligations": obs, "undecided_reason": detail if verdict == "undecided" else None}
                json.dump(meta, open(mp, "w"), indent=1)
    print("seeded: %d changes, %d missed" % (len(names), bad))
    return 1 if bad else 0


if __name__ == "__main__":
    sys.exit(main())
