#!/usr/bin/env python3
"""sensitivity audit: apply each corpus mutant to a scratch copy of /repo and run the checks of the properties it names.
A breaking mutant must produce VIOLATION (exit 1) for every expected property; a harmless one must stay exit 0."""
import subprocess, os, sys, json, shutil, tempfile, re, concurrent.futures
os.environ.setdefault("VERIF_CACHE", "/tmp/hannibal-vcache")  # memoize verifier runs by generated-file hash (corpus tools only)
ROOT = os.path.dirname(os.path.dirname(os.path.abspath(__file__)))
ONLY_PROP = None
def run_one(patch):
    name = os.path.basename(patch)[:-6]
    head = open(patch).read().split("\n")
    expect = json.loads([l for l in head if l.startswith("# expect:")][0][len("# expect:"):])
    td = tempfile.mkdtemp(prefix="hannibal-audit-")
    try:
        rp = os.path.join(td, "repo"); os.makedirs(rp)
        subprocess.run(["rsync", "-a", "--exclude", "target", "--exclude", ".git", "/repo/", rp + "/"], check=True)
        p = subprocess.run(["patch", "-p1", "-s", "-i", patch], cwd=rp, stdout=subprocess.PIPE, stderr=subprocess.STDOUT, text=True)
        if p.returncode != 0: return (name, "PATCH-FAILED", p.stdout[-300:])
        res = []
        ok = True
        for prop in [p for p in expect.get("props", []) if ONLY_PROP is None or p == ONLY_PROP]:
            r = subprocess.run([os.path.join(ROOT, "check"), prop, "--repo", rp, "--no-evidence", "--no-replay"], cwd=ROOT, stdout=subprocess.PIPE, stderr=subprocess.STDOUT, text=True)
            viol = [l for l in r.stdout.split("\n") if l.startswith("VIOLATION")]
            obs = sorted({re.search(r"obligation=(\S+)", l).group(1) for l in viol})
            if expect.get("green"):
                good = r.returncode == 0
            else:
                good = r.returncode == 1 and bool(viol)
            ok = ok and good
            und = [l for l in r.stdout.split("\n") if l.startswith("UNDECIDED")]
            res.append("%s:exit%d%s%s" % (prop, r.returncode, (" obs=" + ",".join(obs)) if obs else "", (" " + und[0][:200]) if und else ""))
        return (name, "ok" if ok else "MISSED", "; ".join(res))
    finally:
        shutil.rmtree(td, ignore_errors=True)
def expect_of(patch):
    head = open(patch).read().split("\n")
    return json.loads([l for l in head if l.startswith("# expect:")][0][len("# expect:"):])
def main():
    args = sys.argv[1:]
    prop = None; as_json = False
    if "--prop" in args: i = args.index("--prop"); prop = args[i + 1]; del args[i:i + 2]
    if "--json" in args: as_json = True; args.remove("--json")
    only = set(args)
    patches = sorted(os.path.join(ROOT, "mutants", f) for f in os.listdir(os.path.join(ROOT, "mutants")) if f.endswith(".patch"))
    if only: patches = [p for p in patches if os.path.basename(p)[:-6] in only or any(os.path.basename(p).startswith(o) for o in only)]
    if prop: patches = [p for p in patches if prop in expect_of(p).get("props", [])]
    bad = 0; rows = []
    global ONLY_PROP
    ONLY_PROP = prop
    with concurrent.futures.ThreadPoolExecutor(max_workers=6) as ex:
        for name, verdict, detail in ex.map(run_one, patches):
            rows.append({"mutant": name, "verdict": verdict, "detail": detail})
            if not as_json: print("%-42s %-7s %s" % (name, verdict, detail))
            bad += verdict != "ok"
    if as_json: print(json.dumps({"mutants": len(patches), "not_as_expected": bad, "rows": rows}))
    else: print("audit: %d mutants, %d not as expected" % (len(patches), bad))
    return 1 if bad else 0
if __name__ == "__main__": sys.exit(main())
