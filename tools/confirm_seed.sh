#!/bin/bash
# usage: tools/confirm_seed.sh <agent-out-dir> <seed-name> <prop>
# Confirms an independently written property-breaking change on a scratch worktree of /repo:
#   demo passes on the clean tree, fails with the patch; the existing suite still has its 41 passes with the patch.
# On success stores it under /verif/seeded/<seed-name>/ (patch.diff, demonstration, meta.json).
src=$1; name=$2; prop=$3
wt=/tmp/hannibal-seedconf/$name; export CARGO_TARGET_DIR=/tmp/hannibal-seedconf/target
rm -rf $wt; mkdir -p /tmp/hannibal-seedconf; git -C /repo worktree add --detach $wt HEAD >/dev/null 2>&1 || { echo "worktree failed"; exit 2; }
demo=$(ls $src/*.rs | head -1); dn=$(basename $demo .rs)
cp $demo $wt/tests/
cd $wt
clean=$(timeout 900 cargo test --offline --test $dn 2>&1 | grep -E "^test result" | head -1)
git apply $src/patch.diff || { echo "patch does not apply"; git -C /repo worktree remove --force $wt; exit 2; }
patched=$(timeout 900 cargo test --offline --test $dn 2>&1 | grep -E "^test result" | head -1)
suite=$(timeout 1200 cargo test --workspace --no-fail-fast --offline --lib 2>&1 | grep -E "^test result" | head -1)
echo "$name clean: $clean"; echo "$name patched: $patched"; echo "$name suite(lib) with patch: $suite"
ok=0
echo "$clean" | grep -q "test result: ok" && echo "$patched" | grep -q "FAILED" && echo "$suite" | grep -q "ok. 41 passed" && ok=1
if [ $ok = 1 ]; then
  d=/verif/seeded/$name; mkdir -p $d; cp $src/patch.diff $d/patch.diff; cp $demo $d/; [ -f $src/demo.md ] && cp $src/demo.md $d/; [ -f $src/notes.md ] && cp $src/notes.md $d/
  python3 - "$d" "$prop" "$name" "$dn" "$clean" "$patched" "$suite" <<'PY'
import json,sys
d,prop,name,dn,clean,patched,suite=sys.argv[1:8]
json.dump({"seed":name,"breaks_property":prop,"written_by":"independent sub-agent given only the property text and a scratch worktree of /repo","base_commit":"1c81883","demonstration":dn+".rs (copy into tests/, run: cargo test --offline --test "+dn+")","confirmed":{"demo_on_clean_tree":clean,"demo_with_patch":patched,"existing_lib_suite_with_patch":suite},"needs_to_manifest":"see notes.md"},open(d+"/meta.json","w"),indent=1)
PY
  echo "$name CONFIRMED -> /verif/seeded/$name"
else echo "$name NOT CONFIRMED"; fi
cd /; git -C /repo worktree remove --force $wt
