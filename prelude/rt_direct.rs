// ===== prelude/rt_direct.rs — async_std::task::JoinHandle<T> and smol::Task<T>: Output = T (a panic of the task propagates to the joiner) =====
impl<A: Actor> VFuture for RtHandle<A> {
    type Output = DynResult<A>;
    open spec fn pre(&self, w: &World) -> bool { true }
    open spec fn done(&self, w0: &World, w1: &World, out: &Self::Output) -> bool {
        rt_joined(self.task(), w0, w1, *out is Ok, if *out is Ok { out->Ok_0.gid() } else { 0 })
    }
    open spec fn dropped(&self, w0: &World, w1: &World) -> bool { same_world(w0, w1) }
    uninterp spec fn ready_at(&self) -> nat;
    #[verifier::external_body] fn await_(self, Tracked(w): Tracked<&mut World>) -> (r: Self::Output) { unimplemented!() }
}
