// unit description files (/verif/units/*.unit), line based
use proc_macro2::TokenStream;
use std::collections::{BTreeMap, BTreeSet};
use std::path::Path;

use crate::util::nospace;

#[derive(Clone, Debug)]
pub struct Extract { pub kind: String, pub file: String, pub path: String, pub opts: BTreeMap<String, String> }
impl Extract { pub fn opt(&self, k: &str) -> Option<String> { self.opts.get(k).cloned() } }

#[derive(Default)]
pub struct Unit {
    pub features: BTreeSet<String>,
    pub preludes: Vec<String>,
    pub specs: Vec<String>,
    pub specrefs: Vec<String>,        // contracts proved in another unit, used here as stubs: unused sections are fine
    pub eager: BTreeSet<String>,      // async callees: `.await` directly on the call is removed (A1); un-awaited -> `<name>__fut` (A1b)
    pub traced: BTreeSet<String>,     // callees that take `Tracked(w)` (G1)
    pub paths: Vec<(String, String)>, // exact (space-free) expression/type path => replacement
    pub types: Vec<(String, String)>, // type pattern with $1..$9 => replacement
    pub bounds: Vec<(String, String)>,
    pub methods: Vec<(String, String)>, // method rename: `name` => `new_name` (all receivers)
    pub ufcs: Vec<String>,            // `path(a0, a1..)` => `a0.last_segment(a1..)` (rule U1)
    pub exprs: Vec<(String, String)>, // expression path => replacement expression (statics such as REGISTRY)
    pub generics: Vec<(String, String)>, // generic parameter bound (space-free) => concrete stand-in type (rule L3)
    pub chains: Vec<(String, String, String)>, // method `b` called on the result of method `a` is renamed
    pub defines: Vec<(String, String)>,  // `${NAME}` placeholders in spec files
    pub broadcasts: Vec<String>,      // broadcast groups made available at the entry of every extracted body (ghost only)
    pub lettypes: Vec<(String, Vec<String>)>, // `lettype path::<$1> => T1<$1>, T2<$1>`: types of the names a tuple `let` binds from a call of that path
    pub guards: BTreeSet<String>,     // `guard a b`: methods that return a lock guard (rule G6)
    pub arity: BTreeMap<String, usize>, // `eager name/N` / `traced name/N`: the rule applies only to calls with N arguments (an unrelated method of the same name, `Option::replace(v)` next to `Addr::replace()`, is left alone)
    pub eagersync: BTreeSet<String>,  // eager names whose un-awaited call is a synchronous call of a same-named function (not a future value)
    pub onrecv: Vec<(String, String, String)>, // method `m` called on the local `x` is renamed (`on x m => n`)
    pub nohold: Vec<(Vec<String>, Vec<String>, String)>, // `nohold up1 up2 => sleep1 sleep2 : marker`: a binding made from a call of `up*` must be out of scope (or dropped) at every call of `sleep*` (rule G7)
    pub dropfx: Vec<(String, String)>,       // `dropfx name => f`: an explicit `drop(e)` where `e` names `name` (a local, `self.name`, a capture `self_name`) is `f(e)` (a drop with an effect the model knows)
    pub panic_forbidden: bool,        // `panics forbidden`: a panic in this unit's functions is an obligation failure, not a path end
    pub pure_paths: BTreeSet<String>,  // call paths that never take the ghost world, whatever their last segment is called
    pub adapters_off: bool,
    pub extracts: Vec<Extract>,
}
impl Unit {
    pub fn load(p: &Path) -> Result<Unit, String> {
        let s = std::fs::read_to_string(p).map_err(|e| format!("cannot read unit {}: {}", p.display(), e))?;
        let mut u = Unit::default();
        for (n, l) in s.lines().enumerate() {
            let l = l.trim(); if l.is_empty() || l.starts_with('#') { continue; }
            let (kw, rest) = l.split_once(char::is_whitespace).unwrap_or((l, ""));
            let rest = rest.trim();
            let words = || rest.split_whitespace().map(|s| s.to_string());
            match kw {
                "features" => u.features.extend(words()),
                "prelude" => u.preludes.extend(words()),
                "spec" => u.specs.extend(words()),
                "specref" => u.specrefs.extend(words()),
                "eager" => { for wd in words() { let (nm, ar) = match wd.split_once('/') { Some((a, b)) => (a.to_string(), b.parse::<usize>().ok()), None => (wd.clone(), None) }; if let Some(k) = ar { u.arity.insert(nm.clone(), k); } u.eager.insert(nm.clone()); u.traced.insert(nm); } }
                "traced" => u.traced.extend(words()),
                "lettype" => { let (a, b) = rest.split_once("=>").ok_or_else(|| format!("{}:{}: expected `lettype path => T1, T2`", p.display(), n + 1))?; let mut tys = vec![]; let mut depth = 0i32; let mut cur = String::new(); for ch in b.chars() { match ch { '<' | '(' => { depth += 1; cur.push(ch); } '>' | ')' => { depth -= 1; cur.push(ch); } ',' if depth == 0 => { tys.push(cur.trim().to_string()); cur.clear(); } _ => cur.push(ch) } } if !cur.trim().is_empty() { tys.push(cur.trim().to_string()); } u.lettypes.push((nospace(a), tys)); }
                "guard" => { u.guards.extend(words()); }
                "eagersync" => { u.eagersync.extend(words()); u.eager.extend(words()); u.traced.extend(words()); }
                "ufcs" => u.ufcs.extend(words()),
                "purepath" => u.pure_paths.extend(words()),
                "panics" => { u.panic_forbidden = rest.trim() == "forbidden"; }
                "broadcast" => u.broadcasts.extend(words()),
                "define" => { let w: Vec<String> = words().collect(); if w.len() == 2 { u.defines.push((w[0].clone(), w[1].clone())); } }
                "expr" => { let (a, b) = rest.split_once("=>").ok_or_else(|| format!("{}:{}: expected `a => b`", p.display(), n + 1))?; u.exprs.push((nospace(a), b.trim().to_string())); }
                "nohold" => { let (a, b) = rest.split_once("=>").ok_or_else(|| format!("{}:{}: expected `nohold up.. => sleep.. : marker`", p.display(), n + 1))?; let (b, m) = b.split_once(':').ok_or_else(|| format!("{}:{}: expected `: marker`", p.display(), n + 1))?; u.nohold.push((a.split_whitespace().map(|x| x.to_string()).collect(), b.split_whitespace().map(|x| x.to_string()).collect(), m.trim().to_string())); }
                "dropfx" => { let (a, b) = rest.split_once("=>").ok_or_else(|| format!("{}:{}: expected `dropfx name => f`", p.display(), n + 1))?; u.dropfx.push((a.trim().to_string(), b.trim().to_string())); }
                "on" => { let (a, b) = rest.split_once("=>").ok_or_else(|| format!("{}:{}: expected `on x m => n`", p.display(), n + 1))?; let ws: Vec<&str> = a.split_whitespace().collect(); if ws.len() != 2 { return Err(format!("{}:{}: on x m => n", p.display(), n + 1)); } u.onrecv.push((ws[0].to_string(), ws[1].to_string(), b.trim().to_string())); }
                "chain" => { let (a, b) = rest.split_once("=>").ok_or_else(|| format!("{}:{}: expected `a b => c`", p.display(), n + 1))?; let ws: Vec<&str> = a.split_whitespace().collect(); if ws.len() != 2 { return Err(format!("{}:{}: chain a b => c", p.display(), n + 1)); } u.chains.push((ws[0].to_string(), ws[1].to_string(), b.trim().to_string())); }
                "generic" => { let (a, b) = rest.split_once("=>").ok_or_else(|| format!("{}:{}: expected `a => b`", p.display(), n + 1))?; u.generics.push((nospace(a), b.trim().to_string())); }
                "path" | "type" | "bound" | "method" => {
                    let (a, b) = rest.split_once("=>").ok_or_else(|| format!("{}:{}: expected `a => b`", p.display(), n + 1))?;
                    let pair = (if kw == "type" { a.trim().to_string() } else { nospace(a) }, b.trim().to_string());
                    match kw { "path" => u.paths.push(pair), "type" => u.types.push(pair), "bound" => u.bounds.push(pair), _ => u.methods.push(pair) }
                }
                "extract" => {
                    let w: Vec<String> = words().collect();
                    if w.len() < 3 { return Err(format!("{}:{}: extract <kind> <file> <path> [k=v..]", p.display(), n + 1)); }
                    let mut opts = BTreeMap::new();
                    for kv in &w[3..] { if let Some((k, v)) = kv.split_once('=') { opts.insert(k.to_string(), v.to_string()); } }
                    u.extracts.push(Extract { kind: w[0].clone(), file: w[1].clone(), path: w[2].clone(), opts });
                }
                other => return Err(format!("{}:{}: unknown directive {}", p.display(), n + 1, other)),
            }
        }
        // extracted functions are traced/eager by default (they get Tracked(w) unless ghost=none)
        for ex in u.extracts.clone() {
            if ex.kind == "fn" || ex.kind == "asyncblock" || ex.kind == "stub" {
                let base = ex.path.rsplit("::").next().unwrap().to_string();
                let name = ex.opt("name").unwrap_or(base);
                if ex.opt("ghost").as_deref() != Some("none") { u.traced.insert(name.clone()); }
                if ex.opt("async").as_deref() == Some("yes") { u.eager.insert(name); }
            }
        }
        // built-in path rules (every unit): std helpers whose model lives in prelude/world.rs; a unit's own rule for the same path wins
    for (a, b) in [("std::any::type_name", "hx_type_name"), ("any::type_name", "hx_type_name"), ("type_name", "hx_type_name"), ("core::any::type_name", "hx_type_name"),
                   ("Arc::strong_count", "hx_arc_count"), ("Arc::weak_count", "hx_arc_count"), ("std::sync::Arc::strong_count", "hx_arc_count"), ("std::sync::Arc::weak_count", "hx_arc_count"), ("Weak::strong_count", "hx_arc_count"), ("Weak::weak_count", "hx_arc_count"),
                   ("std::future::ready", "hx_ready"), ("future::ready", "hx_ready"), ("futures::future::ready", "hx_ready"), ("core::future::ready", "hx_ready")] {
        if !u.paths.iter().any(|(x, _)| x == a) { u.paths.push((a.to_string(), b.to_string())); }
    }
    Ok(u)
    }
    pub fn map_bound(&self, s: &str) -> Option<TokenStream> {
        let k = nospace(s);
        for (a, b) in &self.bounds { if &k == a { return b.parse().ok(); } }
        None
    }
}
