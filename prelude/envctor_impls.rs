// ===== prelude/envctor_impls.rs — Default of the extracted field types (models of `Default::default()` / `#[derive(Default)]`) =====
// `Default for ContextID` is extracted and proved (`Default@ContextID::default` below): what it returns is a fresh id
impl DefaultV for ContextID { open spec fn is_default(&self) -> bool { fresh_context_id(self.0 as int) } fn default_value() -> (r: Self) { ContextID::default() } }
// the global id counter `static CONTEXT_ID: LazyLock<AtomicU64>`: fetch_add(n) returns the value before the addition, atomically; with
// n >= 1 no two calls (from any task) ever return the same value (u64 wrap-around after 2^64 contexts is not modelled)
pub struct AtomicU64V;
pub enum OrderingV { Relaxed, Acquire, Release, AcqRel, SeqCst }
impl AtomicU64V {
    #[verifier::external_body] pub fn fetch_add(&self, n: u64, order: OrderingV) -> (r: u64) ensures n >= 1 ==> fresh_context_id(r as int) { unimplemented!() }
    #[verifier::external_body] pub fn load(&self, order: OrderingV) -> (r: u64) { unimplemented!() }
    #[verifier::external_body] pub fn fetch_sub(&self, n: u64, order: OrderingV) -> (r: u64) { unimplemented!() }
}
pub fn context_id_counter() -> (r: AtomicU64V) { AtomicU64V }

impl DefaultV for EnvironmentConfig { open spec fn is_default(&self) -> bool { self.timeout is None && !self.fail_on_timeout } fn default_value() -> (r: Self) { EnvironmentConfig { timeout: None, fail_on_timeout: false } } }
