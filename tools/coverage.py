#!/usr/bin/env python3
"""which functions of /repo/src have their body under contract in some unit (from the maps hx writes), and which have not"""
import subprocess, os, json, re, sys, tempfile, shutil
ROOT = os.path.dirname(os.path.dirname(os.path.abspath(__file__)))
cfg = json.load(open(os.path.join(ROOT, "config.json")))
td = tempfile.mkdtemp(prefix="hannibal-cov-")
covered = {}   # (file, line) -> [(unit, name, kind)]
try:
    for u, uc in cfg["units"].items():
        out = os.path.join(td, u + ".rs"); mp = os.path.join(td, u + ".map.json")
        subprocess.run([os.path.join(ROOT, "hx/target/release/hx"), "--unit", os.path.join(ROOT, uc["unit"]), "--root", ROOT, "--repo", "/repo", "--out", out, "--map", mp], stdout=subprocess.PIPE, stderr=subprocess.PIPE)
        if not os.path.exists(mp): continue
        for f in json.load(open(mp))["functions"]:
            covered.setdefault((f["file"], f["line"]), []).append((u, f["name"], f["kind"]))
finally:
    shutil.rmtree(td, ignore_errors=True)
# all fn items in src (outside #[cfg(test)] modules, roughly: stop at `mod tests`)
rows = []
for dp, dn, fn in os.walk("/repo/src"):
    for f in fn:
        if not f.endswith(".rs"): continue
        p = os.path.join(dp, f); rel = os.path.relpath(p, "/repo")
        lines = open(p).read().split("\n")
        intest = False; depth_at = None
        for i, l in enumerate(lines, 1):
            if re.match(r"\s*(pub(\(crate\))? )?mod tests?\b", l) or "#[cfg(test)]" in l: intest = True
            if intest: continue
            m = re.match(r"\s*(pub(\([a-z]+\))? )?(const )?(async )?fn (\w+)", l)
            if m:
                name = m.group(5)
                hit = [c for (fl, ln), cs in covered.items() if fl == rel and abs(ln - i) <= 0 for c in cs]
                body = [c for c in hit if c[2] in ("fn", "asyncblock")]
                stub = [c for c in hit if c[2] in ("stub", "decl")]
                rows.append((rel, i, name, "body" if body else ("stub-only" if stub else "NOT")))
nb = sum(r[3] == "body" for r in rows); ns = sum(r[3] == "stub-only" for r in rows); nn = sum(r[3] == "NOT" for r in rows)
for r in rows:
    if r[3] != "body" or "--all" in sys.argv: print("%-10s %s:%d %s" % (r[3], r[0], r[1], r[2]))
print("functions in src (outside test modules): %d; body under contract: %d; stub only: %d; not extracted: %d" % (len(rows), nb, ns, nn))
