# expect: {"props": [...], "obligation": "..."}  or {"green": true} for harmless edits
ENV = "src/environment.rs"
RS = "src/actor/restart_strategy.rs"
ADDR = "src/addr.rs"
WADDR = "src/addr/weak_addr.rs"
SVC = "src/actor/service.rs"
BLD = "src/actor/builder.rs"
SPW = "src/actor/spawner.rs"
SMOL = "src/actor/spawner/smol_spawner.rs"
TOK = "src/actor/spawner/tokio_spawner.rs"
AH = "src/actor/spawner/actor_handle.rs"
CH = "src/channel.rs"
CALLER = "src/addr/caller.rs"
SENDER = "src/addr/sender.rs"
WSENDER = "src/addr/weak_sender.rs"
CTX = "src/context.rs"
BRK = "src/broker.rs"
MUTANTS = [
 {"name": "envctor_context_watches_another_slot", "why": "the context observes a different oneshot than the one the notifier resolves: ctx-derived weak addresses never see the termination", "expect": {"props": ["C14", "C04"], "obligation": "env.from-channel-one-running-slot-for-notifier-context-and-address"},
  "edits": [(ENV, "            running: futures::FutureExt::shared(rx_running),\n", "            running: futures::FutureExt::shared(oneshot::channel::<()>().1),\n"), (ENV, "            running: ctx.running.clone(),\n        };\n        Environment {", "            running: futures::FutureExt::shared(rx_running),\n        };\n        Environment {")]},
 {"name": "envctor_recreating_resets_config", "why": "switching to recreate-from-default silently drops the configured timeout", "expect": {"props": ["C07", "C11"], "obligation": "env.recreating-keeps-everything"},
  "edits": [(ENV, "            stop: self.stop,\n            config: self.config,\n            payload_stream: self.payload_stream,\n            phantom: PhantomData,", "            stop: self.stop,\n            config: Default::default(),\n            payload_stream: self.payload_stream,\n            phantom: PhantomData,")]},
 {"name": "broker_publish_delivers_twice", "why": "every live subscriber gets each publication twice", "expect": {"props": ["C09"], "obligation": "broker.publish-inv"},
  "edits": [(BRK, "            if let Err(_error) = subscriber.send(msg.0.clone()).await {", "            let _ = subscriber.send(msg.0.clone()).await;\n            if let Err(_error) = subscriber.send(msg.0.clone()).await {")]},
 {"name": "broker_publish_stops_at_dead_subscriber", "why": "a terminated subscriber ends the fan-out: the remaining subscribers miss the publication", "expect": {"props": ["C09"], "obligation": "broker.publish-exactly-once-to-every-live-subscriber-and-to-no-one-else"},
  "edits": [(BRK, "            if let Err(_error) = subscriber.send(msg.0.clone()).await {\n                // log::warn!(\"Failed to send message to subscriber: {:?}\", error)\n            }", "            if let Err(_error) = subscriber.send(msg.0.clone()).await {\n                return;\n            }")]},
 {"name": "broker_unsubscribe_is_a_noop", "why": "unsubscribe does not remove the entry: the actor keeps receiving the topic", "expect": {"props": ["C09"], "obligation": "broker.unsubscribe-removes-the-entry"},
  "edits": [(BRK, "        self.subscribers.remove(&sender.id);\n", "        let _ = &sender.id;\n")]},
 {"name": "broker_publish_skips_pruning_harmless", "why": "no pruning after a publication: dead entries stay in the table (allowed: never delivered to, never kept alive)", "expect": {"green": True, "props": ["C09"]},
  "edits": [(BRK, "        self.subscribers\n            .retain(|_, sender| sender.upgrade().is_some());\n", "")]},
 {"name": "env_loop_future_keeps_own_addr", "why": "the loop future captures the actor's own Addr: the mailbox never closes when the last external handle is dropped, the actor never self-terminates", "expect": {"props": ["C05"], "obligation": "loop-future.captures-no-strong-handle-to-its-own-actor"},
  "edits": [(ENV, "        let actor_loop = async move {\n            actor.started(&mut self.ctx).await?;\n\n            let timeout", "        let actor_loop = async move {\n            let _own_addr = &self.addr;\n            actor.started(&mut self.ctx).await?;\n\n            let timeout"), (ENV, "            Ok(actor)\n        };\n\n        (actor_loop, self.addr)\n    }\n\n    pub fn create_loop_on_stream", "            Ok(actor)\n        };\n\n        let addr = self.addr.clone();\n        (actor_loop, addr)\n    }\n\n    pub fn create_loop_on_stream")]},
 {"name": "ctx_drop_does_not_abort", "why": "Context::drop forgets the timers: interval tasks of a dead actor are leaked", "expect": {"props": ["C06", "C10"], "obligation": "ctx.drop-aborts-every-timer"},
  "edits": [(CTX, "impl<A> Drop for Context<A> {\n    fn drop(&mut self) {\n        for task in self.tasks.drain(..) {\n            task.abort();\n        }", "impl<A> Drop for Context<A> {\n    fn drop(&mut self) {\n        self.tasks.clear();")]},
 {"name": "ctx_abort_tasks_keeps_last", "why": "abort_tasks leaves one timer of the old incarnation running", "expect": {"props": ["C07"], "obligation": "ctx.abort-tasks-aborts-every-timer-of-the-incarnation"},
  "edits": [(CTX, "    pub(crate) fn abort_tasks(&mut self) {\n        for task in self.tasks.drain(..) {\n            task.abort();\n        }", "    pub(crate) fn abort_tasks(&mut self) {\n        let keep = self.tasks.pop();\n        for task in self.tasks.drain(..) {\n            task.abort();\n        }\n        if let Some(k) = keep {\n            self.tasks.push(k);\n        }")]},
 {"name": "ctx_interval_submit_then_sleep", "why": "interval delivers first and sleeps afterwards: the first tick comes immediately", "expect": {"props": ["C10"], "obligation": "timer.interval-inv-pattern"},
  "edits": [(CTX, """                loop {
                    A::sleep(duration).await;
                    if myself.try_force_send(message.clone()).is_err() {
                        break;
                    }
                }""", """                loop {
                    if myself.try_force_send(message.clone()).is_err() {
                        break;
                    }
                    A::sleep(duration).await;
                }""")]},
 {"name": "ctx_interval_ignores_dead_actor", "why": "the interval loop never ends when the actor is gone: leaked timer task", "expect": {"props": ["C10"], "obligation": "timer.interval-inv-pattern"},
  "edits": [(CTX, """                    if myself.try_force_send(message.clone()).is_err() {
                        break;
                    }
                }
            })
        }

        /// Send yourself a message at a regular interval.
        pub fn interval_with""", """                    let _ = myself.try_force_send(message.clone());
                }
            })
        }

        /// Send yourself a message at a regular interval.
        pub fn interval_with""")]},
 {"name": "ctx_timer_holds_strong_sender", "why": "the interval task holds an upgraded (strong) Sender: the timer keeps its actor alive forever", "expect": {"props": ["C05", "C10"], "obligation": "ctx.timer-task-holds-no-strong-handle-to-its-actor"},
  "edits": [(CTX, """            let myself = self.weak_sender();
            self.spawn_task(async move {
                loop {
                    A::sleep(duration).await;
                    if myself.try_force_send(message.clone()).is_err() {""", """            let myself = self.weak_sender();
            let strong = myself.upgrade();
            self.spawn_task(async move {
                let _keep = &strong;
                loop {
                    A::sleep(duration).await;
                    if myself.try_force_send(message.clone()).is_err() {""")]},
 {"name": "ctx_spawn_task_without_abort_handle", "why": "spawn_task does not register the abort handle: the timer survives the actor", "expect": {"props": ["C10", "C06"], "obligation": "ctx.spawn-task-registers-one-abort-handle"},
  "edits": [(CTX, "            self.tasks.push(handle);\n", "            drop(handle);\n")]},
 {"name": "ctx_children_registered_under_wrong_key", "why": "register_child files the child under the unit type: send_to_children::<M> never reaches it", "expect": {"props": ["C16"], "obligation": "ctx.register-child-appends-under-its-message-type"},
  "edits": [(CTX, "            .entry(TypeId::of::<M>())\n            .or_default()\n            .push(Box::new(child.into()));", "            .entry(TypeId::of::<()>())\n            .or_default()\n            .push(Box::new(child.into()));")]},
 {"name": "ctx_broadcast_stops_at_first_failure", "why": "send_to_children gives up at the first child that is gone", "expect": {"props": ["C16"], "obligation": "ctx.broadcast-inv"},
  "edits": [(CTX, """                if let Err(error) = child.force_send(message.clone()) {
                    log::error!("Failed to send message to child: {}", error);
                }""", """                if let Err(error) = child.force_send(message.clone()) {
                    log::error!("Failed to send message to child: {}", error);
                    return;
                }""")]},
 {"name": "ctx_broadcast_twice", "why": "every child gets the broadcast twice", "expect": {"props": ["C16"], "obligation": "ctx.broadcast-inv"},
  "edits": [(CTX, """                if let Err(error) = child.force_send(message.clone()) {
                    log::error!("Failed to send message to child: {}", error);
                }""", """                let _ = child.force_send(message.clone());
                if let Err(error) = child.force_send(message.clone()) {
                    log::error!("Failed to send message to child: {}", error);
                }""")]},
 {"name": "ctx_stop_through_waiting_link", "why": "Context::stop upgrades the waiting link only... (uses weak_tx presence as liveness test): with a Sender-less Caller alive it reports AlreadyStopped", "expect": {"green": True, "props": ["C04"]},
  "edits": [(CTX, "    pub fn stop(&self) -> Result<()> {\n        if let Some(tx) = self.weak_force_tx.upgrade() {\n            Ok(tx.send(Payload::Stop)?)", "    pub fn stop(&self) -> Result<()> {\n        let upgraded = self.weak_force_tx.upgrade();\n        if let Some(tx) = upgraded {\n            Ok(tx.send(Payload::Stop)?)")]},
 {"name": "h_caller_drops_force_closure", "why": "the C15 defect: the call closure no longer holds the forcing closure", "expect": {"props": ["C15"], "obligation": "caller.new-owns-both-submit-closures"},
  "edits": [(CALLER, "                // a caller is a strong handle: it keeps both halves of the channel alive\n                let _force_tx = &force_tx;\n", "")]},
 {"name": "h_sender_upgrade_closure_holds_strong", "why": "the upgrade closure of a Sender (copied into every WeakSender) holds a strong Arc: a WeakSender keeps the actor alive", "expect": {"props": ["C05"], "obligation": "sender.downgrade-is-weak"},
  "edits": [(SENDER, "        let weak_tx: Weak<_> = Arc::downgrade(&tx);\n", "        let weak_tx: Weak<_> = Arc::downgrade(&tx);\n        let keep_alive = Arc::clone(&tx);\n"), (SENDER, "        let upgrade = Box::new(move || {\n            weak_tx", "        let upgrade = Box::new(move || {\n            let _keep = &keep_alive;\n            weak_tx")]},
 {"name": "h_sender_send_uses_force_path", "why": "Sender::send goes through the forcing closure: no backpressure through a Sender", "expect": {"props": ["C12"], "obligation": "sender.send-closure-submits-through-the-waiting-closure"},
  "edits": [(SENDER, """        let weak_tx: Weak<_> = Arc::downgrade(&tx);
        let weak_force_tx: Weak<_> = Arc::downgrade(&force_tx);

        let send_fn = Box::new(move |msg| {
            tx.send(Payload::task(move |actor, ctx| {
                Box::pin(Handler::handle(&mut *actor, ctx, msg))
            }))
        });""", """        let weak_tx: Weak<_> = Arc::downgrade(&tx);
        let weak_force_tx: Weak<_> = Arc::downgrade(&force_tx);
        let force_tx2 = Arc::clone(&force_tx);
        let send_fn = Box::new(move |msg| -> Pin<Box<dyn Future<Output = Result<()>> + Send>> {
            let _tx = &tx;
            let r = force_tx2.send(Payload::task(move |actor, ctx| {
                Box::pin(Handler::handle(&mut *actor, ctx, msg))
            }));
            Box::pin(async move { r })
        });""")]},
 {"name": "chan_force_path_second_queue", "why": "the force path of a bounded mailbox gets its own queue: call/ping/stop overtake or never reach the actor", "expect": {"props": ["C01"], "obligation": "chan.bounded-one-queue-for-both-paths-and-receiver"},
  "edits": [(CH, """        let (tx, mut rx) = futures::channel::mpsc::channel::<Payload<A>>(buffer);
        let tx2 = tx.clone();""", """        let (tx2, mut rx) = futures::channel::mpsc::channel::<Payload<A>>(buffer);
        let (tx, _rx_force) = futures::channel::mpsc::channel::<Payload<A>>(buffer);""")]},
 {"name": "chan_bounded_capacity_fixed", "why": "bounded(n) ignores n", "expect": {"props": ["C12"], "obligation": "chan.bounded-capacity-as-requested"},
  "edits": [(CH, "futures::channel::mpsc::channel::<Payload<A>>(buffer);", "futures::channel::mpsc::channel::<Payload<A>>(64);")]},
 {"name": "chan_waiting_path_degraded", "why": "the waiting closure of a bounded mailbox uses start_send: send never waits, no backpressure", "expect": {"props": ["C12"], "obligation": "chan.bounded-send-is-the-waiting-submit-on-this-queue"},
  "edits": [(CH, """                Box::pin(async move {
                    let mut tx = tx.clone();
                    futures::SinkExt::send(&mut tx, event).await?;
                    Ok(())
                })
            },
        );

        let force_send = Arc::new(move |event: Payload<A>| -> Result<()> {
            let mut tx = tx.clone();
            // THIS IS A BUG!""", """                Box::pin(async move {
                    let mut tx = tx.clone();
                    tx.start_send(event)?;
                    Ok(())
                })
            },
        );

        let force_send = Arc::new(move |event: Payload<A>| -> Result<()> {
            let mut tx = tx.clone();
            // THIS IS A BUG!""")]},
 {"name": "addr_send_swallows_enqueue_error", "why": "send reports Ok although the mailbox refused the message", "expect": {"props": ["C01"], "obligation": "send.own-payload-enqueued-once-through-the-waiting-path"},
  "edits": [(ADDR, """                Box::pin(Handler::handle(actor, ctx, msg))
            }))
            .await?;
        Ok(())""", """                Box::pin(Handler::handle(actor, ctx, msg))
            }))
            .await
            .ok();
        Ok(())""")]},
 {"name": "addr_halt_does_not_wait", "why": "halt returns as soon as the stop request is queued", "expect": {"props": ["C04"], "obligation": "halt.ok-only-after-graceful-termination-was-announced"},
  "edits": [(ADDR, "        self.stop()?;\n        self.await\n", "        self.stop()?;\n        Ok(())\n")]},
 {"name": "addr_future_maps_failure_to_ok", "why": "awaiting the address of a failed actor yields Ok", "expect": {"props": ["C04"], "obligation": "addr-future.ok-exactly-when-graceful"},
  "edits": [(ADDR, "            .map(|p| p.map_err(Into::into))", "            .map(|_p| Ok(()))")]},
 {"name": "addr_call_through_waiting_path", "why": "call submits through the waiting path: it can be parked behind a full bounded mailbox and is no longer the non-waiting path the statement names", "expect": {"props": ["C12"], "obligation": "call.own-payload-enqueued-once-on-the-actors-queue-before-waiting"},
  "edits": [(ADDR, """        self.payload_force_tx
            .send(Payload::task(move |actor, ctx| {
                log::trace!("handling task call");""", """        self.payload_tx
            .send(Payload::task(move |actor, ctx| {
                log::trace!("handling task call");"""), (ADDR, """                    let _ = tx_response.send(res);
                })
            }))?;""", """                    let _ = tx_response.send(res);
                })
            }))
            .await?;""")]},
 {"name": "addr_call_payload_answers_unit_before_handling", "why": "ping answers, then nothing: harmless variant of reordering inside ping payload must stay green", "expect": {"green": True, "props": ["C02"]},
  "edits": [(ADDR, """                Box::pin(async move {
                    let _ = tx_response.send(());
                })""", """                Box::pin(async move {
                    let sent = tx_response.send(());
                    let _ = sent;
                })""")]},
 {"name": "addr_consume_skips_stop", "why": "consume joins without ever stopping the actor: it hangs on a live actor", "expect": {"props": ["C17"], "obligation": "consume.stops-the-actor-first"},
  "edits": [(ADDR, """        log::trace!("consuming actor");
        self.addr.stop()?;""", """        log::trace!("consuming actor");""")]},
 {"name": "spawn_stream_builder_drops_handle", "why": "the C18 defect: the handle is dropped, smol cancels the actor", "expect": {"props": ["C18"], "obligation": "stream-builder.spawn-keeps-the-actor-running"},
  "edits": [(BLD, "        let (event_loop, addr) = env.create_loop_on_stream(actor, stream);\n        P::spawn_actor(event_loop).detach();\n        addr", "        let (event_loop, addr) = env.create_loop_on_stream(actor, stream);\n        let _handle = P::spawn_actor(event_loop);\n        addr")]},
 {"name": "spawn_builder_spawn_drops_handle", "why": "ActorBuilderWithChannel::spawn forgets to detach", "expect": {"props": ["C18"], "obligation": "builder.spawn-spawns-what-was-configured-and-keeps-it-running"},
  "edits": [(BLD, "        let (event_loop, addr) = env.create_loop(actor);\n        P::spawn_actor(event_loop).detach();\n        addr", "        let (event_loop, addr) = env.create_loop(actor);\n        let _handle = P::spawn_actor(event_loop);\n        addr")]},
 {"name": "spawn_trait_spawn_drops_owning", "why": "Spawnable::spawn clones the address out of the OwningAddr and drops the handle", "expect": {"props": ["C18"], "obligation": "spawn.actor-keeps-running-after-return"},
  "edits": [(SPW, "        self.spawn_owning().detach()\n", "        self.spawn_owning().to_addr()\n")]},
 {"name": "spawn_smol_without_detach_fn", "why": "smol handle without a detach function: every detach() is a drop, which cancels", "expect": {"props": ["C18"], "obligation": "spawner.handle-drop-never-cancels-or-detach-provided"},
  "edits": [(SMOL, """        .with_detach_fn(move || {
            log::trace!("detaching smol task");
            let mut handle = detach_handle.lock_blocking().take();
            if let Some(handle) = handle.take() {
                handle.detach();
            }
        })""", "")]},
 {"name": "spawn_smol_future_not_detached", "why": "smol spawn_future drops the Task: timers are cancelled immediately", "expect": {"props": ["C18"], "obligation": "spawner.background-future-keeps-running"},
  "edits": [(SMOL, "        smol::spawn(future).detach();", "        let _task = smol::spawn(future);")]},
 {"name": "spawn_builder_timeout_dropped", "why": "the configured timeout never reaches the environment", "expect": {"props": ["C11"], "obligation": "builder.timeout-recorded-2"},
  "edits": [(BLD, "        self.base.config.timeout = Some(timeout);\n        self", "        let _ = timeout;\n        self")]},
 {"name": "spawn_builder_wrong_strategy", "why": "the builder's spawn ignores the selected restart strategy", "expect": {"props": ["C07"], "obligation": "builder.spawn-spawns-what-was-configured-and-keeps-it-running"},
  "edits": [(BLD, """        let env = environment::Environment::<A, R>::from_channel(channel).with_config(config);
        let (event_loop, addr) = env.create_loop(actor);
        P::spawn_actor(event_loop).detach();""", """        let env = environment::Environment::<A, RestartOnly>::from_channel(channel).with_config(config);
        let (event_loop, addr) = env.create_loop(actor);
        P::spawn_actor(event_loop).detach();""")]},
 {"name": "spawn_builder_capacity_ignored", "why": "bounded(n) builds a mailbox of a different capacity", "expect": {"props": ["C12"], "obligation": "builder.bounded-capacity-passed-through"},
  "edits": [(BLD, "    pub fn bounded(self, capacity: usize) -> ActorBuilderWithChannel<A, P, RestartOnly> {\n        self.with_channel(Channel::bounded(capacity))", "    pub fn bounded(self, capacity: usize) -> ActorBuilderWithChannel<A, P, RestartOnly> {\n        let _ = capacity;\n        self.with_channel(Channel::bounded(16))")]},
 {"name": "spawn_handle_detach_noop", "why": "ActorHandle::detach never runs the detach function", "expect": {"props": ["C18"], "obligation": "handle.detach-detaches-the-task"},
  "edits": [(AH, "        if let Some(detach_fn) = self.detach_fn {\n            detach_fn();\n        }", "        let _ = self.detach_fn;")]},
 {"name": "spawn_tokio_join_eats_value", "why": "tokio join maps a successful task to None and never hands the actor back", "expect": {"props": ["C17"], "obligation": "join.first-join-takes-the-value-later-joins-none"},
  "edits": [(TOK, "                    handle.await.ok().and_then(Result::ok)", "                    handle.await.ok().and_then(Result::ok).filter(|_| false)")]},
 {"name": "svc_already_running_inverted", "why": "the C08 defect: maps through stopped", "expect": {"props": ["C08"], "obligation": "already_running.some-true-iff-alive"},
  "edits": [(SVC, "addr.downcast_ref::<Addr<Self>>().map(Addr::running))", "addr.downcast_ref::<Addr<Self>>().map(Addr::stopped))")]},
 {"name": "svc_register_replaces_live", "why": "register replaces a running service and refuses a dead one", "expect": {"props": ["C08"], "obligation": "register.live-instance-refused-registry-unchanged"},
  "edits": [(SVC, "                .is_some_and(Addr::stopped)", "                .is_some_and(Addr::running)")]},
 {"name": "svc_try_from_registry_no_liveness_filter", "why": "try_from_registry hands out a terminated instance", "expect": {"props": ["C08"], "obligation": "try_from_registry.only-live-registered"},
  "edits": [(SVC, "            .filter(|addr| addr.running())\n", "")]},
 {"name": "svc_check_then_act_two_locks", "why": "from_registry checks under a read lock, then spawns and inserts under a separately acquired write lock: two racing callers both spawn", "expect": {"props": ["C08"], "obligation": "from_registry.live-instance-returned-nothing-spawned"},
  "edits": [(SVC, """            let mut registry = REGISTRY.write().await; // this is the only reason for the async block

            if let Some(addr) = registry
                .get_mut(&key)
                .and_then(|addr| addr.downcast_ref::<Addr<Self>>())
                .map(ToOwned::to_owned)
                .filter(Addr::running)
            {""", """            let existing = {
                let registry = REGISTRY.read().await;
                registry
                    .get(&key)
                    .and_then(|addr| addr.downcast_ref::<Addr<Self>>())
                    .map(ToOwned::to_owned)
                    .filter(Addr::running)
            };
            let mut registry = REGISTRY.write().await;

            if let Some(addr) = existing {""")]},
 {"name": "svc_from_registry_returns_dead", "why": "from_registry returns the registered instance without checking that it is alive", "expect": {"props": ["C08"], "obligation": "from_registry.fresh-instance-registered"},
  "edits": [(SVC, """                .map(ToOwned::to_owned)
                .filter(Addr::running)
            {
                log::trace!("service already running""", """                .map(ToOwned::to_owned)
            {
                log::trace!("service already running""")]},
 {"name": "svc_unregister_keeps_entry", "why": "unregister returns the entry but leaves it registered", "expect": {"props": ["C08"], "obligation": "unregister.removes-entry"},
  "edits": [(SVC, """            .remove(&key)
            .and_then(|addr| addr.downcast::<Addr<A>>().ok())
            .map(|addr| *addr)""", """            .get(&key)
            .and_then(|addr| addr.downcast_ref::<Addr<A>>())
            .cloned()""")]},
 {"name": "svc_spawn_not_registered", "why": "the freshly spawned instance is returned but never inserted: every lookup spawns another one", "expect": {"props": ["C08"], "obligation": "from_registry.fresh-instance-registered"},
  "edits": [(SVC, """                handle.detach();
                registry.insert(key, Box::new(addr.clone()));
                debug_assert!(addr.ping().await.is_ok(), "service failed ping");
                addr
            }
        }
    }
}

#[cfg(feature = "runtime")]
impl<A, S> SpawnableService<S> for A""", """                handle.detach();
                debug_assert!(addr.ping().await.is_ok(), "service failed ping");
                addr
            }
        }
    }
}

#[cfg(feature = "runtime")]
impl<A, S> SpawnableService<S> for A""")]},
 {"name": "svc_harmless_reorder", "why": "key computed after the lock is taken, extra logging: must stay green", "expect": {"green": True, "props": ["C08"]},
  "edits": [(SVC, """        let key = TypeId::of::<A>();
        log::trace!("replacing service {}", std::any::type_name::<A>());
        let mut registry = REGISTRY.write().await;""", """        log::trace!("replacing service {}", std::any::type_name::<A>());
        let mut registry = REGISTRY.write().await;
        let key = TypeId::of::<A>();
        log::debug!("got the lock");""")]},
 {"name": "live_stopped_uses_peek", "why": "the C14 defect: stopped() only sees a termination some clone has polled out", "expect": {"props": ["C14"], "obligation": "addr.stopped-tells-the-truth"},
  "edits": [(ADDR, "self.running.strong_count().is_none() || self.running.clone().now_or_never().is_some()", "self.running.peek().is_some()")]},
 {"name": "live_weak_stopped_uses_peek", "why": "WeakAddr::stopped reads peek()", "expect": {"props": ["C14"], "obligation": "weakaddr.stopped-tells-the-truth"},
  "edits": [(WADDR, "self.running.strong_count().is_none()\n            || futures::FutureExt::now_or_never(self.running.clone()).is_some()", "self.running.peek().is_some()")]},
 {"name": "live_stopped_polls_consumed", "why": "polls a clone without the consumed check: panics on a handle that was awaited", "expect": {"props": ["C14"], "obligation": "shared.no-poll-after-completion"},
  "edits": [(ADDR, "self.running.strong_count().is_none() || self.running.clone().now_or_never().is_some()", "self.running.clone().now_or_never().is_some()")]},
 {"name": "live_running_independent_of_stopped", "why": "running() answers from peek while stopped() polls: the two disagree", "expect": {"props": ["C14"], "obligation": "addr.running-tells-the-truth"},
  "edits": [(ADDR, "        !self.stopped()\n", "        self.running.peek().is_none()\n")]},
 {"name": "env_notify_before_stopped", "why": "termination announced before stopped() has run", "expect": {"props": ["C04"], "obligation": "lc.notify-allowed"},
  "edits": [(ENV, "            actor.stopped(&mut self.ctx).await;\n\n            self.stop.notify();\n            Ok(actor)\n        };\n\n        (actor_loop, self.addr)\n    }\n\n    pub fn create_loop_on_stream", "            self.stop.notify();\n            actor.stopped(&mut self.ctx).await;\n            Ok(actor)\n        };\n\n        (actor_loop, self.addr)\n    }\n\n    pub fn create_loop_on_stream")]},
 {"name": "env_stop_continue", "why": "Stop marker ignored: messages after an accepted stop are still handled", "expect": {"props": ["C04", "C03"], "obligation": "loop.inv-running-nothing-pending"},
  "edits": [(ENV, "                    Payload::Stop => break,", "                    Payload::Stop => continue,")]},
 {"name": "env_skip_started", "why": "started() never called", "expect": {"props": ["C03"], "obligation": "lc.dequeue-allowed"},
  "edits": [(ENV, "        let actor_loop = async move {\n            actor.started(&mut self.ctx).await?;\n\n            let timeout", "        let actor_loop = async move {\n            let timeout")]},
 {"name": "env_started_error_swallowed", "why": "a failing started() does not end the actor: messages handled after a failed start", "expect": {"props": ["C03"], "obligation": "lc.dequeue-allowed"},
  "edits": [(ENV, "        let actor_loop = async move {\n            actor.started(&mut self.ctx).await?;\n\n            let timeout", "        let actor_loop = async move {\n            let _ = actor.started(&mut self.ctx).await;\n\n            let timeout")]},
 {"name": "env_stream_no_finished", "why": "finished() skipped for stream actors", "expect": {"props": ["C13", "C03"], "obligation": "lc.stopped-allowed"},
  "edits": [(ENV, "            actor.finished(&mut self.ctx).await;\n", "")]},
 {"name": "env_stream_finished_after_stopped", "why": "finished() after stopped()", "expect": {"props": ["C13", "C03"], "obligation": "lc.stopped-allowed"},
  "edits": [(ENV, "            actor.finished(&mut self.ctx).await;\n            actor.stopped(&mut self.ctx).await;", "            actor.stopped(&mut self.ctx).await;\n            actor.finished(&mut self.ctx).await;")]},
 {"name": "env_stream_none_continue", "why": "last handle dropped does not end a stream actor", "expect": {"props": ["C13"], "obligation": "sloop.inv-running-nothing-pending"},
  "edits": [(ENV, "                            None =>  break\n", "                            None =>  continue\n")]},
 {"name": "env_stream_end_no_break", "why": "stream end does not end the actor", "expect": {"props": ["C13"], "obligation": "sloop.inv-running-nothing-pending"},
  "edits": [(ENV, "                            // stream is done, actor is done\n                            break\n", "                            // stream is done, actor is done\n                            continue\n")]},
 {"name": "env_timeout_returns_ok", "why": "fail_on_timeout terminates as if graceful, without stopped()/notify", "expect": {"props": ["C06", "C11", "C03"], "obligation": "loop.ok-only-after-stopped-and-notify"},
  "edits": [(ENV, "                                return Err(err);", "                                let _ = err; return Ok(actor);")]},
 {"name": "env_timeout_always", "why": "a timer is raced even when no timeout is configured", "expect": {"props": ["C11"], "obligation": "timeout.none-never-abandons"},
  "edits": [(ENV, "    if let Some(timeout) = timeout {\n        futures::select! {", "    if let Some(timeout) = timeout.or(Some(Duration::from_secs(1))) {\n        futures::select! {")]},
 {"name": "env_timeout_swapped_result", "why": "the timer arm reports success, the future arm reports a timeout", "expect": {"props": ["C11"], "obligation": "timeout.ok-ran-to-completion"},
  "edits": [(ENV, "            res = fut.map(Ok).fuse() => res,\n            _ = futures_timer::Delay::new(timeout).fuse() => Err(crate::error::ActorError::Timeout.into())", "            _res = fut.map(Ok).fuse() => Err(crate::error::ActorError::Timeout.into()),\n            _ = futures_timer::Delay::new(timeout).fuse() => Ok(())")]},
 {"name": "rs_restart_skips_stopped", "why": "default restart does not call stopped() on the old incarnation", "expect": {"props": ["C07", "C03"], "obligation": "lc.started-allowed"},
  "edits": [(RS, "impl<A: Actor> RestartStrategy<A> for RestartOnly {\n    async fn refresh(mut actor: A, ctx: &mut Context<A>) -> DynResult<A> {\n        actor.stopped(ctx).await;\n", "impl<A: Actor> RestartStrategy<A> for RestartOnly {\n    async fn refresh(mut actor: A, ctx: &mut Context<A>) -> DynResult<A> {\n")]},
 {"name": "rs_restart_keeps_timers", "why": "the C07 defect: old timers survive a restart", "expect": {"props": ["C07"], "obligation": "lc.no-timer-of-the-old-incarnation-at-restart"},
  "edits": [(RS, "impl<A: Actor> RestartStrategy<A> for RestartOnly {\n    async fn refresh(mut actor: A, ctx: &mut Context<A>) -> DynResult<A> {\n        actor.stopped(ctx).await;\n        ctx.abort_tasks();\n", "impl<A: Actor> RestartStrategy<A> for RestartOnly {\n    async fn refresh(mut actor: A, ctx: &mut Context<A>) -> DynResult<A> {\n        actor.stopped(ctx).await;\n")]},
 {"name": "rs_recreate_keeps_value", "why": "recreate-from-default restarts the same value", "expect": {"props": ["C07"], "obligation": "refresh.recreate-uses-default"},
  "edits": [(RS, "        actor = A::default();\n", "")]},
 {"name": "rs_nonrestartable_restarts", "why": "a non-restartable actor processes the restart request", "expect": {"props": ["C07"], "obligation": "refresh.nonrestartable-ignores"},
  "edits": [(RS, "    async fn refresh(actor: A, _: &mut Context<A>) -> DynResult<A> {\n        Ok(actor)", "    async fn refresh(mut actor: A, ctx: &mut Context<A>) -> DynResult<A> {\n        actor.stopped(ctx).await;\n        ctx.abort_tasks();\n        actor.started(ctx).await?;\n        Ok(actor)")]},
 {"name": "rs_restart_swallows_start_error", "why": "a started() error during restart is ignored and the loop goes on", "expect": {"props": ["C07", "C03"], "obligation": "refresh.new-incarnation-started"},
  "edits": [(RS, "        ctx.abort_tasks();\n        actor.started(ctx).await?;\n        Ok(actor)\n    }\n}\n\n#[derive(Clone, Copy, Debug)]\npub struct RecreateFromDefault;", "        ctx.abort_tasks();\n        let _ = actor.started(ctx).await;\n        Ok(actor)\n    }\n}\n\n#[derive(Clone, Copy, Debug)]\npub struct RecreateFromDefault;")]},
 {"name": "env_harmless_rename_and_log", "why": "renamed loop variable, added logging, reordered independent statements: must stay green", "expect": {"green": True, "props": ["C03", "C04", "C11", "C13", "C07"]},
  "edits": [(ENV, "            while let Some(event) = self.payload_stream.next().await {\n                match event {", "            while let Some(next_payload) = self.payload_stream.next().await {\n                log::trace!(\"got one\");\n                match next_payload {")]},
]
