// ===== prelude/contextid_default.rs — `Default::default()` where a ContextID is expected =====
// `impl Default for ContextID` issues a fresh id from the global counter (proved in unit envctor: `contextid.default-issues-a-fresh-id`);
// the stub `ContextID::default` below carries that contract, so a handle that is given `Default::default()` instead of the actor's own id
// fails the clause that pins its id
pub trait DefaultV: Sized { spec fn is_default(&self) -> bool; fn default_value() -> (r: Self) ensures r.is_default(); }
impl DefaultV for ContextID { open spec fn is_default(&self) -> bool { fresh_context_id(self.0 as int) } fn default_value() -> (r: Self) { ContextID::default() } }
