// ===== prelude/handle_spec.rs — specification-side view of the real ActorHandle struct (extracted in the units that include this) =====
impl<A> ActorHandle<A> {
    pub open spec fn task(&self) -> int { cell_task(self.join_fn.cap0()) }
    // (a boxed closure with code id 0 is one that does nothing when called, see rule L1z: such a detach function is none at all)
    pub open spec fn has_detach(&self) -> bool { self.detach_fn is Some && self.detach_fn->0.code() != 0 }
    // the runtime join handle is still in the cell (neither joined nor detached yet) and both closures share that cell
    pub open spec fn wf(&self, w: &World) -> bool {
        &&& w.cells.dom().contains(self.join_fn.cap0()) && w.cells[self.join_fn.cap0()]
        &&& w.tasks.dom().contains(self.task())
        &&& (self.has_detach() ==> self.detach_fn->0.cap0() == self.join_fn.cap0())
    }
}
