// ===== prelude/broker.rs — what broker.rs stands on: the subscriber table, handles, the registry, Addr::send =====
pub enum ActorError { AlreadyStopped, SendFailed }
pub trait Actor: Sized { spec fn gid(&self) -> int; }
pub trait Message: Sized { type Response; }
pub trait Handler<M: Message>: Actor {}
pub trait Service: Actor + Default {
    // service.rs Service::from_registry / try_from_registry (contracts proved in unit svc): the one live registered instance of this type
    fn from_registry(Tracked(w): Tracked<&mut World>) -> (r: Addr<Self>) ensures r.chan() == service_chan::<Self>(), others_ran(old(w), final(w));
    fn try_from_registry(Tracked(w): Tracked<&mut World>) -> (r: Option<Addr<Self>>) ensures r is Some ==> r->0.chan() == service_chan::<Self>(), same_world(old(w), final(w));
    // service.rs Service::already_running (proved in unit svc): looks the service up under the registry lock and changes nothing; what it
    // answers depends on what other tasks did to the registry meanwhile (None may also mean: not registered YET)
    fn already_running(Tracked(w): Tracked<&mut World>) -> (r: Option<bool>) ensures others_ran(old(w), final(w));
}
pub uninterp spec fn service_chan<S>() -> int;           // the mailbox of the currently registered live instance of service S
#[verifier::external_body] #[verifier::accept_recursive_types(A)] pub struct Context<A> { p: core::marker::PhantomData<A> }
impl<A: Actor> Context<A> {
    // context.rs Context::weak_sender (proved in unit ctx)
    #[verifier::external_body] pub fn weak_sender<M: Message<Response = ()>>(&self) -> (r: WeakSender<M>) where A: Handler<M> { unimplemented!() }
    pub uninterp spec fn chan(&self) -> int;
    // context.rs Context::stop / Context::restart (proved in unit ctx): a Stop (-1) / Restart (-2) request on the context's own queue, through the forcing path
    #[verifier::external_body]
    pub fn stop(&self, Tracked(w): Tracked<&mut World>) -> (r: Result<(), ActorError>)
        ensures r is Ok ==> final(w).trace == old(w).trace.push(Ev::Enq { chan: self.chan(), pid: -1, force: true }), r is Err ==> final(w).trace == old(w).trace
    { unimplemented!() }
    #[verifier::external_body]
    pub fn restart(&self, Tracked(w): Tracked<&mut World>) -> (r: Result<(), ActorError>)
        ensures r is Ok ==> final(w).trace == old(w).trace.push(Ev::Enq { chan: self.chan(), pid: -2, force: true }), r is Err ==> final(w).trace == old(w).trace
    { unimplemented!() }
}
#[verifier::external_body] #[verifier::accept_recursive_types(A)] pub struct Addr<A> { p: core::marker::PhantomData<A> }
pub uninterp spec fn mid_of<M>(m: &M) -> int;
// one submit: Ok means exactly one enqueue of this message on that queue through that path, Err means none
pub open spec fn one_submit(pre: &World, post: &World, chan: int, mid: int, force: bool, ok: bool) -> bool {
    &&& post.lc == pre.lc && post.cells =~= pre.cells && shared_moved(sh(pre), sh(post))
    &&& (ok ==> post.trace == pre.trace.push(post.trace.last()) && post.trace.drop_last() == pre.trace && post.trace.last() == (Ev::Enq { chan: chan, pid: mid, force: force }))
    &&& (!ok ==> post.trace == pre.trace)
}
impl<A> Addr<A> {
    pub uninterp spec fn chan(&self) -> int;
    // addr.rs Addr::send (contract proved in unit addr; the payload id is identified with the message id here)
    #[verifier::external_body]
    pub fn send<M: Message<Response = ()>>(&self, msg: M, Tracked(w): Tracked<&mut World>) -> (r: Result<(), ActorError>)
        ensures one_submit(old(w), final(w), self.chan(), mid_of(&msg), false, r is Ok)
    { unimplemented!() }
    // addr.rs Addr::force_send (proved in unit addr): the same through the forcing path
    #[verifier::external_body]
    pub fn force_send<M: Message<Response = ()>>(&self, msg: M, Tracked(w): Tracked<&mut World>) -> (r: Result<(), ActorError>)
        ensures one_submit(old(w), final(w), self.chan(), mid_of(&msg), true, r is Ok)
    { unimplemented!() }
    // addr.rs Addr::call (proved in unit addr): the payload goes through the FORCING path, then the caller waits for the handler's answer
    #[verifier::external_body]
    pub fn call<M: Message>(&self, msg: M, Tracked(w): Tracked<&mut World>) -> (r: Result<M::Response, ActorError>)
        ensures final(w).lc == old(w).lc && final(w).cells =~= old(w).cells && shared_moved(sh(old(w)), sh(final(w))),
            r is Ok ==> final(w).trace == old(w).trace.push(Ev::Enq { chan: self.chan(), pid: mid_of(&msg), force: true }).push(Ev::OsRecv { slot: final(w).last_slot }),
            old(w).trace.is_prefix_of(final(w).trace),
    { unimplemented!() }
}
#[verifier::external_body] #[verifier::accept_recursive_types(M)] pub struct WeakSenderRest<M> { p: core::marker::PhantomData<M> }
pub struct WeakSender<M> { pub id: ContextID, pub rest: WeakSenderRest<M> }      // weak_sender.rs: `pub(crate) id` is read by the broker
#[verifier::external_body] #[verifier::accept_recursive_types(M)] pub struct Sender<M> { p: core::marker::PhantomData<M> }
impl<M> OwnView for WeakSender<M> { open spec fn own(&self) -> Own { Own { none: false, chan: self.chan(), s_tx: false, s_force: false, w_tx: true, w_force: true, mixed: false } } }
impl<M> OwnView for Sender<M> { open spec fn own(&self) -> Own { Own { none: false, chan: self.chan(), s_tx: true, s_force: true, w_tx: false, w_force: false, mixed: false } } }
impl<M> WeakSenderRest<M> { pub uninterp spec fn chan(&self) -> int; }
impl<M> WeakSender<M> { pub open spec fn chan(&self) -> int { self.rest.chan() } }
impl<M> WeakSender<M> {
    // weak_sender.rs WeakSender::upgrade (proved in unit h_sender): a STRONG Sender in the hands of the caller for as long as the binding
    // lives; harmless if it is gone before the next await, a way to keep the subscriber alive if it is held across one (rule G7, `nohold`)
    #[verifier::external_body]
    pub fn upgrade(&self, Tracked(w): Tracked<&mut World>) -> (r: Option<Sender<M>>)
        ensures r is Some ==> r->0.chan() == self.chan(), same_world(old(w), final(w))
    { unimplemented!() }
}
// weak_sender.rs `impl Clone for WeakSender` (proved in unit h_sender: weak, same actor)
impl<M> Clone for WeakSender<M> { #[verifier::external_body] fn clone(&self) -> (r: Self) ensures r == *self { unimplemented!() } }
impl<M> Sender<M> {
    pub uninterp spec fn chan(&self) -> int;
    // sender.rs Sender::send (contract proved in unit h_sender)
    #[verifier::external_body]
    pub fn send(&self, msg: M, Tracked(w): Tracked<&mut World>) -> (r: Result<(), ActorError>)
        ensures one_submit(old(w), final(w), self.chan(), mid_of(&msg), false, r is Ok)
    { unimplemented!() }
    // sender.rs Sender::force_send (contract proved in unit h_sender): the same through the forcing path (never waits for mailbox space)
    #[verifier::external_body]
    pub fn force_send(&self, msg: M, Tracked(w): Tracked<&mut World>) -> (r: Result<(), ActorError>)
        ensures one_submit(old(w), final(w), self.chan(), mid_of(&msg), true, r is Ok)
    { unimplemented!() }
}
// `msg.0.clone()` of a topic value: a copy with the same ghost identity (the same publication)
pub broadcast axiom fn clone_same_mid<T: Clone>(a: &T, b: &T) requires cloned(*a, *b) ensures #[trigger] mid_of(b) == #[trigger] mid_of(a);
// ---- the subscriber table `HashMap<ContextID, WeakSender<T>>`
#[verifier::external_body] #[verifier::accept_recursive_types(K)] #[verifier::accept_recursive_types(V)] pub struct VMap<K, V> { p: core::marker::PhantomData<(K, V)> }
impl<K, V: OwnView> OwnView for VMap<K, V> { uninterp spec fn own(&self) -> Own; }
pub broadcast axiom fn vmap_of_weak_values_is_weak<K, V: OwnView>(m: &VMap<K, V>) requires forall|v: V| no_strong(#[trigger] v.own()) ensures no_strong(#[trigger] m.own());
impl<T> VMap<ContextID, WeakSender<T>> {
    pub uninterp spec fn view(&self) -> Map<int, int>;         // context id -> subscriber's mailbox
    #[verifier::external_body] pub fn is_empty(&self) -> (r: bool) ensures r <==> self@.dom() =~= Set::<int>::empty() { unimplemented!() }
    #[verifier::external_body] pub fn len(&self) -> (r: usize) ensures (r == 0) <==> self@.dom() =~= Set::<int>::empty(), r as nat == self@.dom().len() { unimplemented!() }
    #[verifier::external_body]
    pub fn insert(&mut self, k: ContextID, v: WeakSender<T>) -> (r: Option<WeakSender<T>>) ensures final(self)@ == old(self)@.insert(k.0 as int, v.chan()) { unimplemented!() }
    #[verifier::external_body]
    pub fn remove(&mut self, k: &ContextID) -> (r: Option<WeakSender<T>>) ensures final(self)@ == old(self)@.remove(k.0 as int) { unimplemented!() }
    // values().filter_map(WeakSender::upgrade).collect(): one strong sender per entry whose upgrade succeeds now, each entry at most once
    #[verifier::external_body]
    pub fn collect_upgraded(&self, Tracked(w): Tracked<&mut World>) -> (r: Vec<Sender<T>>)
        ensures same_world(old(w), final(w)), collected(self@, live_keys(self@, old(w)), r@)
    { unimplemented!() }
    // retain(|_, s| s.upgrade().is_some()): entries of terminated subscribers are pruned, live ones kept
    #[verifier::external_body]
    pub fn retain_upgradable(&mut self, Tracked(w): Tracked<&mut World>)
        ensures same_world(old(w), final(w)), final(self)@ == old(self)@.restrict(live_keys(old(self)@, old(w))), final(self)@.dom().len() <= old(self)@.dom().len()
    { unimplemented!() }
}
pub uninterp spec fn live_keys(subs: Map<int, int>, w: &World) -> Set<int>;     // the entries whose weak sender upgrades at this instant (a subset of the keys)
pub uninterp spec fn key_order(subs: Map<int, int>, keys: Set<int>) -> Seq<int>; // the (unspecified) order in which HashMap::values yields them: every key once
// what the two names above mean, as far as a body may rely on it without having iterated: the live entries are entries, and iterating
// over no entries yields nothing
pub broadcast axiom fn live_keys_are_keys(subs: Map<int, int>, w: &World, k: int) requires #[trigger] live_keys(subs, w).contains(k) ensures subs.dom().contains(k);
pub broadcast axiom fn key_order_of_nothing(subs: Map<int, int>, keys: Set<int>) requires forall|k: int| !keys.contains(k) ensures #[trigger] key_order(subs, keys).len() == 0;
pub broadcast group broker_table_axioms { live_keys_are_keys, key_order_of_nothing }
pub open spec fn collected<T>(subs: Map<int, int>, keys: Set<int>, r: Seq<Sender<T>>) -> bool {
    &&& keys.subset_of(subs.dom()) && key_order(subs, keys).no_duplicates() && key_order(subs, keys).to_set() == keys
    &&& r.len() == key_order(subs, keys).len() && forall|i: int| #![auto] 0 <= i < r.len() ==> r[i].chan() == subs[key_order(subs, keys)[i]]
}
// rule G7: a strong sender obtained by an upgrade that is still in scope at an await of this unit (the marker's precondition is the obligation)
pub fn hx_strong_handle_held_across_an_await()
    requires false,                                                                            // @ob broker.no-strong-handle-to-a-subscriber-is-held-across-an-await C05,C09
{ }
