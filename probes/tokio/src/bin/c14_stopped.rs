// replay probe for C14: stop an actor, never await any address, then ask stopped()/running()
use hannibal::prelude::*;
use std::time::Duration;
#[derive(Default)]
struct A1;
impl Actor for A1 {}
#[tokio::main]
async fn main() {
    let mut a = A1.spawn();
    let weak = a.downgrade();
    a.stop().unwrap();
    tokio::time::sleep(Duration::from_millis(100)).await;
    let gone = a.ping().await.is_err();
    // each query on its own never-polled handle, each read exactly once
    let (b, c) = (a.clone(), a.clone());
    let (st, ru, ws) = (b.stopped(), c.running(), weak.stopped());
    println!("actor gone (ping fails) = {gone}; stopped() = {st}; running() = {ru}; weak.stopped() = {ws}");
    if gone && (!st || ru || !ws) { println!("REPRODUCED stopped()/running() do not report a termination nobody awaited"); } else { println!("not reproduced"); }
}
