// ===== prelude/spawner_trait.rs — the one contract every Spawner implementation is proved against (C18) =====
#[verifier::external_body] #[verifier::accept_recursive_types(A)]
pub struct LoopFuture<A> { p: core::marker::PhantomData<A> }
impl<A> LoopFuture<A> { pub uninterp spec fn info(&self) -> LoopInfo; pub open spec fn slot(&self) -> int { self.info().slot } }
pub trait Spawner<A: Actor>: Sized {
    // assumed runtime fact: dropping this runtime's task handle lets the task run on (tokio, async-std: true; smol: false, drop cancels)
    spec fn drop_is_detach() -> bool;
    fn spawn_actor(future: LoopFuture<A>, Tracked(w): Tracked<&mut World>) -> (h: ActorHandle<A>)
        ensures !old(w).tasks.dom().contains(h.task()), h.task() == slot_task(future.info().slot),                             // @ob spawner.fresh-task C18
                *final(w) == (World { tasks: old(w).tasks.insert(h.task(), TaskSt::Held), task_info: old(w).task_info.insert(h.task(), future.info()), cells: final(w).cells, ..*old(w) }),   // @ob spawner.spawns-exactly-this-future C18,C17
                h.wf(final(w)),                                                                                                // @ob spawner.handle-joins-this-task C17,C18
                h.has_detach() || Self::drop_is_detach(),                                                                      // @ob spawner.handle-drop-never-cancels-or-detach-provided C18
                forall|c: int| #![auto] old(w).cells.dom().contains(c) ==> final(w).cells.dom().contains(c) && final(w).cells[c] == old(w).cells[c];   // @ob spawner.other-cells-untouched C17
    // a background future (timer task): it keeps running after the call, on every runtime
    fn spawn_future(future: ClosureObj, Tracked(w): Tracked<&mut World>)
        ensures final(w).tasks.dom() =~= old(w).tasks.dom().insert(bg_task(future)), !old(w).tasks.dom().contains(bg_task(future)),   // @ob spawner.background-future-spawned-once C18,C10
                final(w).tasks[bg_task(future)] == TaskSt::Detached || (final(w).tasks[bg_task(future)] == TaskSt::Held && Self::drop_is_detach()),                                                      // @ob spawner.background-future-keeps-running C18,C10
                *final(w) == (World { tasks: final(w).tasks, ..*old(w) });                                                      // @ob spawner.spawn-future-frame C18
    // sleep(d): completes no earlier than d (one Slept event)
    fn sleep(duration: u64, Tracked(w): Tracked<&mut World>)
        ensures emits(old(w), final(w), Ev::Slept { d: duration as int });                                                     // @ob spawner.sleep-sleeps-the-duration C18,C10
}
pub uninterp spec fn bg_task(f: ClosureObj) -> int;
// "keeps running after the call has returned": detached, or the handle is still held by the caller's result, or dropping it is harmless on this runtime
pub open spec fn alive_after<P: Spawner<A>, A: Actor>(w: &World, t: int, retained: bool) -> bool {
    w.tasks.dom().contains(t) && (w.tasks[t] == TaskSt::Detached || (w.tasks[t] == TaskSt::Held && (retained || P::drop_is_detach())))
}
// ghost name of the runtime task that runs the loop future whose notifier resolves running slot `s` (a loop future is spawned at most once)
pub uninterp spec fn slot_task(s: int) -> int;
pub open spec fn spawned_here(pre: &World, post: &World, t: int) -> bool { !pre.tasks.dom().contains(t) && post.tasks.dom().contains(t) }
// one actor task spawned between pre and post, running exactly `info`, still alive after the call
pub open spec fn spawned_task<P: Spawner<A>, A: Actor>(pre: &World, post: &World, t: int, retained: bool, info: LoopInfo) -> bool {
    &&& spawned_here(pre, post, t) && alive_after::<P, A>(post, t, retained) && post.task_info[t] == info
    &&& t == slot_task(info.slot)
    &&& post.tasks.dom() =~= pre.tasks.dom().insert(t)
    &&& post.slots.dom().contains(info.slot)
}
// ... by an operation that has nothing to do with the service registry (every spawn entry point except the builder's `register`)
pub open spec fn spawned_one<P: Spawner<A>, A: Actor>(pre: &World, post: &World, t: int, retained: bool, info: LoopInfo) -> bool {
    &&& spawned_task::<P, A>(pre, post, t, retained, info)
    &&& post.registry == pre.registry && post.reg_acq == pre.reg_acq && post.reg_evictions == pre.reg_evictions && post.locked == pre.locked
}
