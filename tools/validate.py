#!/usr/bin/env python3
import json, sys, os, glob
import jsonschema
ROOT = os.path.dirname(os.path.dirname(os.path.abspath(__file__)))
jsonschema.validate(json.load(open(ROOT + "/MANIFEST.json")), json.load(open("/root/.vp/MANIFEST.schema.json")))
print("MANIFEST ok")
es = json.load(open("/root/.vp/EVIDENCE.schema.json"))
for f in sorted(glob.glob(ROOT + "/evidence/*.json")):
    jsonschema.validate(json.load(open(f)), es); print("evidence ok", os.path.basename(f))
