#!/usr/bin/env python3
"""mechanical single-edit mutants of /repo/src (outside test modules), filtered by "still compiles and the 41 pinned unit tests still pass",
then run through the checks of every property whose units extract from the mutated file.
  tools/automut.py gen            -> /tmp/automut/mutants.json (sites)
  tools/automut.py filter [-j N]  -> /tmp/automut/survivors.json (compile + `cargo test --lib` pass)
  tools/automut.py check  [-j N]  -> /tmp/automut/results.json  (verdict of every relevant check per survivor)
  tools/automut.py report         -> survivors that NO relevant check flags (to be triaged by hand: equivalent / harmless / a real miss)
Scratch lives under /tmp/automut and is removed by `tools/automut.py clean`."""
import os, re, sys, json, subprocess, shutil, concurrent.futures, tempfile
os.environ.setdefault("VERIF_CACHE", "/tmp/hannibal-vcache")  # memoize verifier runs by generated-file hash (corpus tools only)
ROOT = os.path.dirname(os.path.dirname(os.path.abspath(__file__)))
W = "/tmp/automut"


def src_files():
    out = []
    for dp, dn, fn in os.walk("/repo/src"):
        for f in fn:
            if f.endswith(".rs"):
                out.append(os.path.join(dp, f))
    return sorted(out)


def code_lines(path):
    """(index, line) of lines that are library code: stop at the first #[cfg(test)]; skip comments, attributes, doc lines"""
    lines = open(path).read().split("\n")
    res = []
    for i, l in enumerate(lines):
        if "#[cfg(test)]" in l:
            break
        t = l.strip()
        if not t or t.startswith("//") or t.startswith("#[") or t.startswith("#!") or t.startswith("use ") or t.startswith("pub use "):
            continue
        res.append((i, l))
    return lines, res


def gen():
    muts = []
    for p in src_files():
        rel = os.path.relpath(p, "/repo")
        lines, code = code_lines(p)
        idx = {i for i, _ in code}
        for i, l in code:
            t = l.strip()
            ind = l[:len(l) - len(l.lstrip())]
            def add(op, new, span=1):
                muts.append({"file": rel, "line": i + 1, "op": op, "old": lines[i:i + span], "new": new})
            # DEL: a whole expression statement on one line
            if len(ind) >= 8 and t.endswith(";") and not re.match(r"(let|return|break|continue|pub|fn|type|const|static|impl|struct|enum|mod)\b", t) and "=>" not in t and t.count("(") == t.count(")") and not t.startswith("}"):
                add("DEL", [])
            # NEG: plain if condition
            m = re.match(r"^(\s*)(\}?\s*else\s+)?if (?!let\b)(.*) \{\s*$", l)
            if m and "if let" not in l:
                add("NEG", ["%s%sif !(%s) {" % (m.group(1), m.group(2) or "", m.group(3))])
            # BOOL / comparison / predicate swaps (first occurrence on the line)
            for a, b, op in (("&&", "||", "ANDOR"), ("||", "&&", "ORAND"), (" == ", " != ", "EQNE"), (" != ", " == ", "NEEQ"), (".is_some()", ".is_none()", "SOME"), (".is_none()", ".is_some()", "NONE"),
                             (".is_ok()", ".is_err()", "OK"), (".is_err()", ".is_ok()", "ERR"), (" < ", " <= ", "LT"), (" <= ", " < ", "LE"), (" > ", " >= ", "GT"), (" + 1", "", "PLUS1"), (" - 1", "", "MINUS1")):
                if a in l and not t.startswith("log::") and "|_|" not in l.replace("||", "|_|") or (a in l and op not in ("ORAND",)):
                    if a == "||" and re.search(r"\|\|\s*(\{|->|[a-z_]+\.|async)", l):   # a closure without parameters, not a boolean or
                        continue
                    add(op, [l.replace(a, b, 1)])
            if re.search(r"\btrue\b", l) and not t.startswith("log::"):
                add("TRUE", [re.sub(r"\btrue\b", "false", l, 1)])
            if re.search(r"\bfalse\b", l) and not t.startswith("log::"):
                add("FALSE", [re.sub(r"\bfalse\b", "true", l, 1)])
            # QOK: swallow an error
            if t.endswith("?;") and not t.startswith("let "):
                add("QOK", [l.rstrip()[:-2] + ".ok();"])
            # SWAP: two consecutive one-line expression statements
            if i + 1 in idx:
                n = lines[i + 1]; tn = n.strip()
                ok = lambda s: s.endswith(";") and not re.match(r"(let|return|break|continue)\b", s) and "=>" not in s and s.count("(") == s.count(")") and not s.startswith("}")
                if len(ind) >= 8 and ok(t) and ok(tn) and n[:len(n) - len(n.lstrip())] == ind and t != tn:
                    add("SWAP", [n, l], span=2)
            # DELCHAIN: one element of a multi-line method chain
            if t.startswith(".") and t.count("(") == t.count(")") and not t.startswith(".await") and i - 1 in idx:
                add("DELCHAIN", [])
            # STOPRUN: the two liveness predicates swapped
            for a, b in (("stopped", "running"), ("running", "stopped")):
                for form in ("Addr::%s", ".%s()"):
                    if form % a in l and "fn " not in l:
                        add("STOPRUN", [l.replace(form % a, form % b, 1)])
            for a, b in ((".is_some_and(", ".is_none_or("), (".is_none_or(", ".is_some_and(")):
                if a in l: add("SOMEAND", [l.replace(a, b, 1)])
            # BRKCONT / WHILEIF
            if re.search(r"\bbreak\b", l) and "'" not in l: add("BRKCONT", [re.sub(r"\bbreak\b", "continue", l, 1)])
            if re.search(r"\bcontinue\b", l): add("BRKCONT", [re.sub(r"\bcontinue\b", "break", l, 1)])
            if re.match(r"\s*while let ", l): add("WHILEIF", [l.replace("while let", "if let", 1)])
            # numeric literal 1 <-> 0 / 2 in calls
            m2 = re.search(r"\((\d+)([,)])", l)
            if m2 and not t.startswith("log::") and "assert" not in l:
                v = int(m2.group(1)); add("NUM", [l[:m2.start(1)] + str(v + 1) + l[m2.end(1):]])
                if v > 0: add("NUM", [l[:m2.start(1)] + str(v - 1) + l[m2.end(1):]])
    # keep the ids of an earlier generation stable: new mutants are appended
    prev = json.load(open(os.path.join(W, "mutants.json"))) if os.path.exists(os.path.join(W, "mutants.json")) else []
    prevk = {(m["file"], m["line"], m["op"], tuple(m["new"])) for m in prev}
    muts = prev + [m for m in muts if (m["file"], m["line"], m["op"], tuple(m["new"])) not in prevk]
    # de-duplicate
    seen = set(); out = []
    for m in muts:
        k = (m["file"], m["line"], m["op"], tuple(m["new"]))
        if k in seen or m["new"] == m["old"]:
            continue
        seen.add(k)
        if "id" not in m: m["id"] = max([x.get("id", -1) for x in out] + [-1]) + 1
        out.append(m)
    os.makedirs(W, exist_ok=True)
    json.dump(out, open(os.path.join(W, "mutants.json"), "w"), indent=0)
    print("generated", len(out), "mutants")
    byop = {}
    for m in out: byop[m["op"]] = byop.get(m["op"], 0) + 1
    print(byop)


def apply(m, repo):
    p = os.path.join(repo, m["file"])
    lines = open(p).read().split("\n")
    i = m["line"] - 1
    assert lines[i:i + len(m["old"])] == m["old"], (m["file"], m["line"])
    lines[i:i + len(m["old"])] = m["new"]
    open(p, "w").write("\n".join(lines))


def worker_dir(k):
    d = os.path.join(W, "w%d" % k)
    if not os.path.exists(os.path.join(d, "repo")):
        os.makedirs(d, exist_ok=True)
        subprocess.run(["rsync", "-a", "--exclude", "target", "--exclude", ".git", "/repo/", os.path.join(d, "repo") + "/"], check=True)
        env = dict(os.environ, CARGO_TARGET_DIR=os.path.join(d, "target"), CARGO_NET_OFFLINE="true")
        subprocess.run(["cargo", "test", "--lib", "--offline", "--no-run"], cwd=os.path.join(d, "repo"), env=env, stdout=subprocess.PIPE, stderr=subprocess.PIPE)
    return d


def filt(jobs):
    muts = json.load(open(os.path.join(W, "mutants.json")))
    done = {}
    sp = os.path.join(W, "filtered.json")
    if os.path.exists(sp):
        done = {int(k): v for k, v in json.load(open(sp)).items()}
    todo = [m for m in muts if m["id"] not in done]
    chunks = [todo[k::jobs] for k in range(jobs)]
    def run(k):
        d = worker_dir(k); repo = os.path.join(d, "repo")
        env = dict(os.environ, CARGO_TARGET_DIR=os.path.join(d, "target"), CARGO_NET_OFFLINE="true", RUSTFLAGS="")
        res = {}
        for m in chunks[k]:
            orig = open(os.path.join(repo, m["file"])).read()
            try:
                apply(m, repo)
                b = subprocess.run(["cargo", "test", "--lib", "--offline", "--no-run"], cwd=repo, env=env, stdout=subprocess.PIPE, stderr=subprocess.PIPE, text=True)
                if b.returncode != 0:
                    res[m["id"]] = "nocompile"
                else:
                    try:
                        t = subprocess.run(["cargo", "test", "--lib", "--offline"], cwd=repo, env=env, stdout=subprocess.PIPE, stderr=subprocess.PIPE, text=True, timeout=120)
                        ok = "test result: ok. 41 passed" in t.stdout
                        if not ok and "dont_overlap_when_tasks_take_too_long" in t.stdout and t.stdout.count("FAILED") <= 3:
                            t = subprocess.run(["cargo", "test", "--lib", "--offline"], cwd=repo, env=env, stdout=subprocess.PIPE, stderr=subprocess.PIPE, text=True, timeout=120)
                            ok = "test result: ok. 41 passed" in t.stdout
                        res[m["id"]] = "survives" if ok else "killed"
                    except subprocess.TimeoutExpired:
                        res[m["id"]] = "killed-timeout"
            finally:
                open(os.path.join(repo, m["file"]), "w").write(orig)
        return res
    with concurrent.futures.ThreadPoolExecutor(max_workers=jobs) as ex:
        for r in ex.map(run, range(jobs)):
            done.update(r)
            json.dump(done, open(sp, "w"))
    c = {}
    for v in done.values(): c[v] = c.get(v, 0) + 1
    print(c)
    json.dump([m for m in muts if done.get(m["id"]) == "survives"], open(os.path.join(W, "survivors.json"), "w"), indent=0)


def relevant_props(file):
    cfg = json.load(open(os.path.join(ROOT, "config.json")))
    units = []
    for u, uc in cfg["units"].items():
        txt = open(os.path.join(ROOT, uc["unit"])).read()
        if re.search(r"^extract \S+ %s " % re.escape(file), txt, re.M):
            units.append(u)
    return sorted(p for p, pc in cfg["properties"].items() if pc.get("claimed") and any(u in pc["units"] for u in units))


def check(jobs):
    surv = json.load(open(os.path.join(W, "survivors.json")))
    rp_ = os.path.join(W, "results.json")
    results = json.load(open(rp_)) if os.path.exists(rp_) else {}
    def one(m):
        if str(m["id"]) in results:
            return m["id"], results[str(m["id"])]
        td = tempfile.mkdtemp(prefix="hannibal-automut-")
        try:
            rp = os.path.join(td, "r"); os.makedirs(rp)
            subprocess.run(["rsync", "-a", "--exclude", "target", "--exclude", ".git", "/repo/", rp + "/"], check=True)
            apply(m, rp)
            out = {}
            for p in relevant_props(m["file"]):
                r = subprocess.run([os.path.join(ROOT, "check"), p, "--repo", rp, "--no-evidence", "--no-replay"], cwd=ROOT, stdout=subprocess.PIPE, stderr=subprocess.STDOUT, text=True)
                ob = sorted({re.search(r"obligation=(\S+)", l).group(1) for l in r.stdout.split("\n") if l.startswith("VIOLATION")})
                out[p] = {0: "OK", 1: "VIOLATION " + ",".join(ob)[:120], 2: "undecided"}.get(r.returncode, "exit%d" % r.returncode)
            return m["id"], out
        finally:
            shutil.rmtree(td, ignore_errors=True)
    with concurrent.futures.ThreadPoolExecutor(max_workers=jobs) as ex:
        for i, out in ex.map(one, surv):
            results[str(i)] = out
            json.dump(results, open(rp_, "w"))
    print("checked", len(results))


def report():
    surv = json.load(open(os.path.join(W, "survivors.json")))
    results = json.load(open(os.path.join(W, "results.json")))
    flagged = unflagged = und = 0
    for m in surv:
        r = results.get(str(m["id"]), {})
        if any(v.startswith("VIOLATION") for v in r.values()):
            flagged += 1; continue
        if r and all(v == "undecided" for v in r.values()):
            und += 1
        unflagged += 1
        print("#%d %s:%d %s  %s" % (m["id"], m["file"], m["line"], m["op"], " ".join("%s=%s" % (k, v[:3]) for k, v in sorted(r.items())) or "(no property's units extract from this file)"))
        for o in m["old"]: print("    - " + o.strip()[:150])
        for n in m["new"]: print("    + " + n.strip()[:150])
    print("survivors: %d; flagged by a check (VIOLATION): %d; not flagged: %d (of which undecided everywhere: %d)" % (len(surv), flagged, unflagged, und))


if __name__ == "__main__":
    cmd = sys.argv[1] if len(sys.argv) > 1 else "report"
    jobs = int(sys.argv[sys.argv.index("-j") + 1]) if "-j" in sys.argv else 6
    if cmd == "gen": gen()
    elif cmd == "filter": filt(jobs)
    elif cmd == "check": check(jobs)
    elif cmd == "report": report()
    elif cmd == "clean": shutil.rmtree(W, ignore_errors=True)
