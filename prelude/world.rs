// ===== prelude/world.rs — ghost world threaded through every traced operation (DESIGN §5.1) =====
// a `running` slot: the oneshot whose Shared receiver every Addr / WeakAddr / Context holds.
//   resolved: the inner oneshot has a result (notifier fired, or was dropped un-fired) — this is `terminated`
//   observed: some Shared handle's poll has driven the inner receiver to completion (state COMPLETE)
//   ok:       (meaningful once resolved) the notifier fired, i.e. termination was graceful; false: the notifier was dropped un-fired
pub struct Slot { pub resolved: bool, pub observed: bool, pub ok: bool }
pub struct AnyVal { pub tid: int, pub slot: int, pub cid: int }    // abstract content of a type-erased box holding an Addr
pub enum TaskSt { Held, Detached }
pub struct Canceled;                     // futures oneshot: the sender was dropped without sending
pub enum Kind { Ignore, Same, Fresh }     // what a restart request does (C07): ignored / same value restarted / fresh Default value
// what an actor task was spawned with (C07 strategy selection, C11 config pass-through, C12 capacity pass-through, C13 stream attachment)
pub struct LoopInfo { pub slot: int, pub kind: Kind, pub stream: bool, pub timeout: Option<u64>, pub fail_on_timeout: bool, pub cap: Option<usize>, pub gid: int }
pub struct World {
    pub lc: Lc,                        // lifecycle automaton state of the actor task under proof
    pub trace: Seq<Ev>,                // its event trace (lc is the fold of `step` over it, by construction of the stand-ins)
    pub slots: Map<int, Slot>,         // running slots
    pub registry: Map<int, AnyVal>,    // the service registry, keyed by type_id::<A>()
    pub reg_acq: Map<int, AnyVal>,     // the registry as it was when the lock was last acquired
    pub locked: bool,                  // this task holds the registry lock
    pub tasks: Map<int, TaskSt>,       // runtime tasks spawned so far: handle still held / detached
    pub task_info: Map<int, LoopInfo>, // what each spawned actor task runs
    pub cells: Map<int, bool>,         // take-once cells holding a runtime join handle: true = still there, false = taken
    pub closed: Set<int>,              // mailbox queues whose receiver is gone (shared: a closed queue stays closed)
    pub aborted: Set<int>,             // timer tasks whose abort handle has been used
    pub bg: Seq<int>,                  // background futures (timer tasks) spawned by this task, in order
    pub cfg_timeout: Option<u64>,      // the handler timeout this actor task was configured with (C11)
    pub last_pid: int,                 // ghost registers: the payload / oneshot slot most recently created by this task
    pub last_slot: int,
    pub reg_evictions: int,            // local: how many LIVE registry entries this task has removed or overwritten so far (C08/C09)
}
pub open spec fn emits(pre: &World, post: &World, e: Ev) -> bool {
    *post == World { lc: step(pre.lc, e), trace: pre.trace.push(e), ..*pre }
}
pub open spec fn same_world(pre: &World, post: &World) -> bool { *post == *pre }
// a blocking operation: other tasks ran meanwhile. What is local to this task (its automaton state, its trace, its private cells) is
// unchanged; what is shared moved on by steps of other tasks: `shared_moved` is reflexive and transitive, and keeps the stable facts:
// a resolved running slot stays resolved, tasks and slots are never forgotten, a task's spawn info and held/detached state are only
// changed by its handle's owner, the registry is ours while we hold the lock.
pub struct SharedSt { pub closed: Set<int>, pub slots: Map<int, Slot>, pub registry: Map<int, AnyVal>, pub reg_acq: Map<int, AnyVal>, pub locked: bool, pub tasks: Map<int, TaskSt>, pub task_info: Map<int, LoopInfo> }
pub open spec fn sh(w: &World) -> SharedSt { SharedSt { closed: w.closed, slots: w.slots, registry: w.registry, reg_acq: w.reg_acq, locked: w.locked, tasks: w.tasks, task_info: w.task_info } }
pub uninterp spec fn shared_moved(a: SharedSt, b: SharedSt) -> bool;
pub broadcast axiom fn shared_moved_refl(a: SharedSt) ensures #[trigger] shared_moved(a, a);
pub broadcast axiom fn shared_moved_trans(a: SharedSt, b: SharedSt, c: SharedSt) requires #[trigger] shared_moved(a, b), #[trigger] shared_moved(b, c) ensures shared_moved(a, c);
pub broadcast axiom fn shared_moved_facts(a: SharedSt, b: SharedSt) requires #[trigger] shared_moved(a, b)
    ensures b.locked == a.locked, a.closed.subset_of(b.closed), a.slots.dom().subset_of(b.slots.dom()), a.tasks.dom().subset_of(b.tasks.dom()),
        forall|s: int| #![auto] a.slots.dom().contains(s) && a.slots[s].resolved ==> b.slots[s].resolved,
        forall|t: int| #![auto] a.tasks.dom().contains(t) ==> b.tasks[t] == a.tasks[t] && b.task_info[t] == a.task_info[t],
        a.locked ==> b.registry == a.registry && b.reg_acq == a.reg_acq;
pub broadcast group world_axioms { shared_moved_refl, shared_moved_trans, shared_moved_facts }
pub open spec fn others_ran(pre: &World, post: &World) -> bool {
    post.lc == pre.lc && post.trace == pre.trace && post.cells =~= pre.cells && post.reg_evictions == pre.reg_evictions && shared_moved(sh(pre), sh(post))
}
// a panic where the statement promises a value instead (units with `panics forbidden`: the join closures, C06/C17)
#[verifier::external_body]
pub fn vpanic_forbidden<T>() -> (r: T)
    requires false,                                                                                                       // @ob no-panic-where-a-value-is-promised C06,C17
    ensures false
{ unimplemented!() }
pub fn vdrop<T>(t: T) { }      // `drop(e)` (rule D5)
// `.map(|_| ())` (rule F2 names it `map_unit`) on a Result / an Option: the success value is forgotten, everything else is kept
pub trait HxMapUnit: Sized { type O; spec fn hx_mu(self, o: Self::O) -> bool; fn map_unit(self) -> (r: Self::O) ensures self.hx_mu(r); }
impl<T, E> HxMapUnit for Result<T, E> { type O = Result<(), E>; open spec fn hx_mu(self, o: Result<(), E>) -> bool { (self is Ok <==> o is Ok) && (self is Err ==> o->Err_0 == self->Err_0) }
    fn map_unit(self) -> (r: Result<(), E>) { match self { Ok(_) => Ok(()), Err(e) => Err(e) } } }
impl<T> HxMapUnit for Option<T> { type O = Option<()>; open spec fn hx_mu(self, o: Option<()>) -> bool { self is Some <==> o is Some }
    fn map_unit(self) -> (r: Option<()>) { match self { Some(_) => Some(()), None => None } } }
// rule G6: the value comes out of a lock guard that stays alive (as a temporary of an `if let`/`match` scrutinee, or as a local) across
// a later await: whoever else needs that lock waits for as long as this future is kept un-polled. The shape itself is the defect.
pub fn hx_guard_held_across_await<T>(t: T) -> (r: T)
    requires false,                                                                            // @ob lock.guard-not-held-across-an-await C02,C17,C18,C08,C06
    ensures r == t
{ t }
pub fn hx_guard_shape_marker()
    requires false,                                                                            // @ob lock.guard-not-held-across-an-await C02,C17,C18,C08,C06
{ }
// Option / Result ::unwrap_or_default (rule C1u): the contained value if there is one; otherwise `Default::default()`, about which nothing is assumed
pub trait HxUnwrapOrDefault: Sized { type V; spec fn hx_has(&self) -> bool; spec fn hx_val(&self) -> Self::V;
    fn hx_unwrap_or_default(self) -> (r: Self::V) ensures self.hx_has() ==> r == self.hx_val(); }
impl<T> HxUnwrapOrDefault for Option<T> { type V = T; open spec fn hx_has(&self) -> bool { self is Some } open spec fn hx_val(&self) -> T { self->0 }
    #[verifier::external_body] fn hx_unwrap_or_default(self) -> (r: T) { unimplemented!() } }
impl<T, E> HxUnwrapOrDefault for Result<T, E> { type V = T; open spec fn hx_has(&self) -> bool { self is Ok } open spec fn hx_val(&self) -> T { self->Ok_0 }
    #[verifier::external_body] fn hx_unwrap_or_default(self) -> (r: T) { unimplemented!() } }
#[verifier::external_body]
pub fn vpanic<T>() -> (r: T) ensures false { unimplemented!() }

// future stand-ins (rules A2, A4): a future value has a precondition for being driven, a completion relation,
// an effect when it is dropped un-completed, and a ghost point in time at which it becomes ready (C11 only)
pub trait VFuture: Sized {
    type Output;
    spec fn pre(&self, w: &World) -> bool;
    spec fn done(&self, w0: &World, w1: &World, out: &Self::Output) -> bool;
    spec fn dropped(&self, w0: &World, w1: &World) -> bool;
    spec fn ready_at(&self) -> nat;
    fn await_(self, Tracked(w): Tracked<&mut World>) -> (r: Self::Output)
        requires self.pre(old(w)),
        ensures self.done(old(w), final(w), &r);
}
pub enum Sel<X, Y> { A(X), B(Y), Complete }
// futures::select! over two freshly created, fused futures: exactly one arm's future completes, the other is dropped
// un-run; the winner was ready no later than the loser; `complete` is unreachable because neither is terminated.
#[verifier::external_body]
pub fn select2<FA: VFuture, FB: VFuture>(a: FA, b: FB, Tracked(w): Tracked<&mut World>) -> (r: Sel<FA::Output, FB::Output>)
    requires a.pre(old(w)), b.pre(old(w)),
    ensures
        r is A ==> exists|m: World| #![auto] a.done(old(w), &m, &r->A_0) && b.dropped(&m, final(w)) && a.ready_at() <= b.ready_at(),
        r is B ==> exists|m: World| #![auto] b.done(old(w), &m, &r->B_0) && a.dropped(&m, final(w)) && b.ready_at() <= a.ready_at(),
        !(r is Complete),
{ unimplemented!() }

// futures::select_biased!: the same, except that of two ready futures the first always wins. Used in a loop over two sources, the second
// source is never looked at while the first stays ready: it can be starved for ever (a stop request behind a busy stream, C13 / C04)
#[verifier::external_body]
pub fn select2_biased<FA: VFuture, FB: VFuture>(a: FA, b: FB, Tracked(w): Tracked<&mut World>) -> (r: Sel<FA::Output, FB::Output>)
    requires a.pre(old(w)), b.pre(old(w)),
        false,                                                                                 // @ob select.both-sources-get-their-turn-no-fixed-preference C13,C04,C03,C02
    ensures
        r is A ==> exists|m: World| #![auto] a.done(old(w), &m, &r->A_0) && b.dropped(&m, final(w)) && a.ready_at() <= b.ready_at(),
        r is B ==> exists|m: World| #![auto] b.done(old(w), &m, &r->B_0) && a.dropped(&m, final(w)) && b.ready_at() <= a.ready_at(),
        !(r is Complete),
{ unimplemented!() }

// `fut.map(Ok)` (rule F2)
pub struct MapOk<F> { pub inner: F }
impl<F: VFuture> VFuture for MapOk<F> {
    type Output = DynResult<F::Output>;
    open spec fn pre(&self, w: &World) -> bool { self.inner.pre(w) }
    open spec fn done(&self, w0: &World, w1: &World, out: &Self::Output) -> bool { out is Ok && self.inner.done(w0, w1, &out->Ok_0) }
    open spec fn dropped(&self, w0: &World, w1: &World) -> bool { self.inner.dropped(w0, w1) }
    open spec fn ready_at(&self) -> nat { self.inner.ready_at() }
    fn await_(self, Tracked(w): Tracked<&mut World>) -> (r: Self::Output) { Ok(self.inner.await_(Tracked(w))) }
}
pub trait VFutureExt: VFuture { fn map_ok(self) -> (r: MapOk<Self>) ensures r.inner == self; }
impl<F: VFuture> VFutureExt for F { fn map_ok(self) -> (r: MapOk<Self>) { MapOk { inner: self } } }
// FutureExt::now_or_never: one poll; Some(out) if the future completed in it, otherwise the future is dropped un-finished
pub trait VFutureNow: VFuture {
    fn now_or_never(self, Tracked(w): Tracked<&mut World>) -> (r: Option<Self::Output>)
        requires self.pre(old(w)),
        ensures r is Some ==> self.done(old(w), final(w), &r->0), r is None ==> self.dropped(old(w), final(w));
}
impl<F: VFuture> VFutureNow for F { #[verifier::external_body] fn now_or_never(self, Tracked(w): Tracked<&mut World>) -> (r: Option<Self::Output>) { unimplemented!() } }

// futures_timer::Delay (ghost duration only)
pub struct Delay { pub d: u64 }
impl Delay { pub fn new(d: u64) -> (r: Delay) ensures r.d == d { Delay { d } } }
impl VFuture for Delay {
    type Output = ();
    open spec fn pre(&self, w: &World) -> bool { true }
    open spec fn done(&self, w0: &World, w1: &World, out: &()) -> bool { same_world(w0, w1) }
    open spec fn dropped(&self, w0: &World, w1: &World) -> bool { same_world(w0, w1) }
    open spec fn ready_at(&self) -> nat { self.d as nat }
    #[verifier::external_body]
    fn await_(self, Tracked(w): Tracked<&mut World>) -> (r: ()) { unimplemented!() }
}

// errors
#[verifier::external_body] pub struct DynErr { e: Box<dyn std::error::Error + Send + Sync> }
pub type DynResult<T> = Result<T, DynErr>;

// std::time::Duration as a ghost-comparable number (rule T2)
pub fn duration_from_secs(s: u64) -> (r: u64) ensures r == s { s }
pub fn duration_from_millis(ms: u64) -> (r: u64) ensures r == ms { ms }

// std::time::Duration as a ghost-comparable number (rule T2): conversions to coarser units are not modelled (their results are unconstrained)
pub trait DurationOps { fn as_millis(&self) -> (r: u128); fn as_micros(&self) -> (r: u128); fn as_nanos(&self) -> (r: u128); fn as_secs(&self) -> (r: u64); fn is_zero(&self) -> (r: bool); fn subsec_millis(&self) -> (r: u32); fn subsec_micros(&self) -> (r: u32); fn subsec_nanos(&self) -> (r: u32); }
impl DurationOps for u64 {
    #[verifier::external_body] fn as_millis(&self) -> (r: u128) { unimplemented!() }
    #[verifier::external_body] fn as_micros(&self) -> (r: u128) { unimplemented!() }
    #[verifier::external_body] fn as_nanos(&self) -> (r: u128) { unimplemented!() }
    #[verifier::external_body] fn as_secs(&self) -> (r: u64) { unimplemented!() }
    #[verifier::external_body] fn is_zero(&self) -> (r: bool) { unimplemented!() }
    #[verifier::external_body] fn subsec_millis(&self) -> (r: u32) { unimplemented!() }
    #[verifier::external_body] fn subsec_micros(&self) -> (r: u32) { unimplemented!() }
    #[verifier::external_body] fn subsec_nanos(&self) -> (r: u32) { unimplemented!() }
}
// context ids: `fresh_context_id(i)` = i was issued by the global id counter (envctor proves `ContextID::default` against it); it lives
// here so that any unit can use that contract as a stub
pub uninterp spec fn fresh_context_id(id: int) -> bool;
// the service registry as a map (C08): an entry is live while the running slot of the address it holds is unresolved
// taking the entry under key k out of the registry (removing or overwriting it) evicts a live instance iff one is registered there
pub open spec fn evicts(w: &World, k: int) -> int { if reg_live(w, w.registry, k) { 1 } else { 0 } }
pub open spec fn reg_live(w: &World, rg: Map<int, AnyVal>, k: int) -> bool { rg.dom().contains(k) && !w.slots[rg[k].slot].resolved }
// rule M4: `format!(..)` (error messages): some string
#[verifier::external_body] pub fn hx_format() -> (r: String) { unimplemented!() }
#[verifier::external_body] pub fn hx_log_enabled() -> (r: bool) { unimplemented!() }   // log::log_enabled!(..): some bool
// std functions vstd has no specification for (their documented behaviour, assumed):
pub assume_specification<T>[Option::<T>::replace](o: &mut Option<T>, v: T) -> (r: Option<T>)
    ensures r == *old(o), *final(o) == Some(v);
pub assume_specification<T>[<[T]>::split_last](s: &[T]) -> (r: Option<(&T, &[T])>)
    ensures s@.len() == 0 ==> r is None,
            s@.len() > 0 ==> r is Some && ({ let p = r.unwrap(); *p.0 == s@.last() && p.1@ == s@.drop_last() });
// std::any::type_name::<T>() (diagnostics): some string
#[verifier::external_body] pub fn hx_type_name<T>() -> (r: &'static str) { unimplemented!() }
// std::future::ready(v): a future that is complete at once, yields v and does nothing else
pub struct ReadyFut<T> { pub v: T }
impl<T> VFuture for ReadyFut<T> {
    type Output = T;
    open spec fn pre(&self, w: &World) -> bool { true }
    open spec fn done(&self, w0: &World, w1: &World, out: &T) -> bool { same_world(w0, w1) && *out == self.v }
    open spec fn dropped(&self, w0: &World, w1: &World) -> bool { same_world(w0, w1) }
    open spec fn ready_at(&self) -> nat { 0 }
    fn await_(self, Tracked(w): Tracked<&mut World>) -> (r: T) { self.v }
}
pub fn hx_ready<T>(v: T) -> (r: ReadyFut<T>) ensures r.v == v { ReadyFut { v } }
// Arc::strong_count / Arc::weak_count (diagnostics, debug assertions): some number; reading it keeps nothing alive
#[verifier::external_body] pub fn hx_arc_count<T>(t: &T) -> (r: usize) { unimplemented!() }
