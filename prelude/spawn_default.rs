// ===== prelude/spawn_default.rs — `Default::default()` of the builder's configuration (model of `#[derive(Default)]` on EnvironmentConfig:
// every field is an Option or a bool; the extractor checks that the struct still derives Default, `derives=Default`) =====
pub trait DefaultV: Sized { spec fn is_default(&self) -> bool; fn default_value() -> (r: Self) ensures r.is_default(); }
impl DefaultV for EnvironmentConfig { open spec fn is_default(&self) -> bool { self.timeout is None && !self.fail_on_timeout } fn default_value() -> (r: Self) { EnvironmentConfig { timeout: None, fail_on_timeout: false } } }
