// ===== prelude/anybox.rs — TypeId and type-erased boxes (`Box<dyn Any + Send + Sync>`) =====
pub uninterp spec fn type_id<T>() -> int;
#[verifier::external_body] #[derive(Clone, Copy)]
pub struct TypeIdV { x: u8 }
impl TypeIdV { pub uninterp spec fn id(&self) -> int; }
#[verifier::external_body]
pub fn type_id_exec<T>() -> (r: TypeIdV) ensures r.id() == type_id::<T>() { unimplemented!() }
// what a type-erased box holds
pub trait AnyValued { spec fn any_val(&self) -> AnyVal; }
impl<T: AnyValued> AnyValued for Box<T> { open spec fn any_val(&self) -> AnyVal { (**self).any_val() } }
#[verifier::external_body]
pub struct AnyBoxObj { x: u8 }
impl AnyBoxObj {
    pub uninterp spec fn val(&self) -> AnyVal;
    #[verifier::external_body]
    pub fn downcast_ref<T: AnyValued>(&self) -> (r: Option<&T>)
        ensures r is Some <==> self.val().tid == type_id::<T>(), r is Some ==> r->0.any_val() == self.val()
    { unimplemented!() }
    #[verifier::external_body]
    pub fn downcast<T: AnyValued>(self) -> (r: Result<Box<T>, AnyBoxObj>)
        ensures r is Ok <==> self.val().tid == type_id::<T>(), r is Ok ==> r->Ok_0.any_val() == self.val()
    { unimplemented!() }
}
impl<T: AnyValued> BoxNew<T> for AnyBoxObj {
    open spec fn boxed_ok(t: &T, r: &Self) -> bool { r.val() == t.any_val() }
    #[verifier::external_body] fn box_new_(t: T) -> (r: Self) { unimplemented!() }
}
