#!/usr/bin/env python3
"""(re)generate /verif/mutants/*.patch — the sensitivity corpus (DESIGN §6): deliberate property-breaking
edits, each of which must make a named obligation fail; plus harmless edits that must stay green.
Edits are (file, old, new) replacements applied to a scratch worktree of /repo HEAD."""
import subprocess, os, sys, json, shutil, tempfile
ROOT = os.path.dirname(os.path.dirname(os.path.abspath(__file__)))
sys.path.insert(0, os.path.join(ROOT, "tools"))
from mutant_defs import MUTANTS
def sh(*a, **k): return subprocess.run(a, check=True, text=True, stdout=subprocess.PIPE, **k).stdout
td = tempfile.mkdtemp(prefix="hannibal-mut-")
wt = os.path.join(td, "wt")
sh("git", "-C", "/repo", "worktree", "add", "--detach", wt, "HEAD")
try:
    os.makedirs(os.path.join(ROOT, "mutants"), exist_ok=True)
    only = set(sys.argv[1:])
    for m in MUTANTS:
        if only and m["name"] not in only: continue
        for (f, old, new) in m["edits"]:
            p = os.path.join(wt, f); s = open(p).read()
            if s.count(old) != 1: print("!! %s: anchor occurs %d times in %s" % (m["name"], s.count(old), f)); break
            open(p, "w").write(s.replace(old, new))
        else:
            diff = sh("git", "-C", wt, "diff")
            head = "# mutant: %s\n# expect: %s\n# why: %s\n" % (m["name"], json.dumps(m["expect"]), m["why"])
            open(os.path.join(ROOT, "mutants", m["name"] + ".patch"), "w").write(head + diff)
            print("ok", m["name"])
        sh("git", "-C", wt, "checkout", "--", ".")
finally:
    sh("git", "-C", "/repo", "worktree", "remove", "--force", wt)
    shutil.rmtree(td, ignore_errors=True)
