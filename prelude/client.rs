// ===== prelude/client.rs — the client contract (DESIGN §5.2): what user callbacks may do =====
// A callback appends exactly its own event, keeps the ghost identity of the actor value, and terminates.
pub trait Actor: Sized {
    spec fn gid(&self) -> int;
    fn started(&mut self, ctx: &mut Context<Self>, Tracked(w): Tracked<&mut World>) -> (r: DynResult<()>)
        requires started_phase_ok(old(w).lc, old(self).gid()),                                                                // @ob lc.started-allowed C03,C07,C17,C01
                 started_timers_ok(old(w).lc),                                                                                // @ob lc.no-timer-of-the-old-incarnation-at-restart C07,C10
        ensures emits(old(w), final(w), Ev::CbStarted { gid: old(self).gid(), ok: r is Ok }), final(self).gid() == old(self).gid(), ctx_stable(old(ctx), final(ctx));
    fn stopped(&mut self, ctx: &mut Context<Self>, Tracked(w): Tracked<&mut World>)
        requires allowed(old(w).lc, Ev::CbStopped { gid: old(self).gid() }),                                                  // @ob lc.stopped-allowed C03,C04,C13,C06,C14,C17,C16,C01,C07
        ensures emits(old(w), final(w), Ev::CbStopped { gid: old(self).gid() }), final(self).gid() == old(self).gid(), ctx_stable(old(ctx), final(ctx));
}
pub uninterp spec fn item_id<T>(t: &T) -> int;
pub trait StreamHandler<M>: Actor {
    fn handle(&mut self, ctx: &mut Context<Self>, msg: M, Tracked(w): Tracked<&mut World>)
        requires allowed(old(w).lc, Ev::RunDone { pid: item_id(&msg), gid: old(self).gid() }),                                // @ob lc.item-run-allowed C13,C03
        ensures emits(old(w), final(w), Ev::RunDone { pid: item_id(&msg), gid: old(self).gid() }), final(self).gid() == old(self).gid(), ctx_stable(old(ctx), final(ctx));
    fn finished(&mut self, ctx: &mut Context<Self>, Tracked(w): Tracked<&mut World>)
        requires allowed(old(w).lc, Ev::CbFinished { gid: old(self).gid() }),                                                 // @ob lc.finished-allowed C13,C03
        ensures emits(old(w), final(w), Ev::CbFinished { gid: old(self).gid() }), final(self).gid() == old(self).gid(), ctx_stable(old(ctx), final(ctx));
}
// `A::default()` (C07, recreate-from-default): a new value; the automaton only lets it replace the current one between stopped and started
#[verifier::external_body]
pub fn fresh_default<A: Actor>(Tracked(w): Tracked<&mut World>) -> (r: A)
    requires allowed(old(w).lc, Ev::Recreated { gid: 0 }),                                                                    // @ob lc.recreate-allowed C07,C17,C01
    ensures emits(old(w), final(w), Ev::Recreated { gid: r.gid() }),
{ unimplemented!() }

// `std::mem::take(&mut actor)`: hands out the current value and leaves `A::default()` in its place (same automaton event as above)
#[verifier::external_body]
pub fn mem_take<A: Actor>(a: &mut A, Tracked(w): Tracked<&mut World>) -> (r: A)
    requires allowed(old(w).lc, Ev::Recreated { gid: 0 }),
    ensures emits(old(w), final(w), Ev::Recreated { gid: final(a).gid() }), r.gid() == old(a).gid(),
{ unimplemented!() }

// the callbacks as future *values* (rule A1b): a callback future that is dropped un-completed never reports its lifecycle event
#[verifier::external_body] pub struct StartedFut<'a> { p: core::marker::PhantomData<&'a mut ()> }
impl<'a> StartedFut<'a> { pub uninterp spec fn gid(&self) -> int; pub uninterp spec fn needs(&self) -> nat; }
impl<'a> VFuture for StartedFut<'a> {
    type Output = DynResult<()>;
    open spec fn pre(&self, w: &World) -> bool { started_phase_ok(w.lc, self.gid()) && started_timers_ok(w.lc) }
    open spec fn done(&self, w0: &World, w1: &World, out: &DynResult<()>) -> bool { emits(w0, w1, Ev::CbStarted { gid: self.gid(), ok: *out is Ok }) }
    open spec fn dropped(&self, w0: &World, w1: &World) -> bool { same_world(w0, w1) }
    open spec fn ready_at(&self) -> nat { self.needs() }
    #[verifier::external_body] fn await_(self, Tracked(w): Tracked<&mut World>) -> (r: DynResult<()>) { unimplemented!() }
}
#[verifier::external_body] pub struct UnitCbFut<'a> { p: core::marker::PhantomData<&'a mut ()> }
impl<'a> UnitCbFut<'a> { pub uninterp spec fn ev(&self) -> Ev; pub uninterp spec fn needs(&self) -> nat; }
impl<'a> VFuture for UnitCbFut<'a> {
    type Output = ();
    open spec fn pre(&self, w: &World) -> bool { allowed(w.lc, self.ev()) }
    open spec fn done(&self, w0: &World, w1: &World, out: &()) -> bool { emits(w0, w1, self.ev()) }
    open spec fn dropped(&self, w0: &World, w1: &World) -> bool { same_world(w0, w1) }
    open spec fn ready_at(&self) -> nat { self.needs() }
    #[verifier::external_body] fn await_(self, Tracked(w): Tracked<&mut World>) -> (r: ()) { unimplemented!() }
}
pub trait ActorFutures: Actor {
    fn started__fut<'a>(&'a mut self, ctx: &'a mut Context<Self>) -> (r: StartedFut<'a>) ensures r.gid() == old(self).gid(), final(self).gid() == old(self).gid();
    fn stopped__fut<'a>(&'a mut self, ctx: &'a mut Context<Self>) -> (r: UnitCbFut<'a>) ensures r.ev() == (Ev::CbStopped { gid: old(self).gid() }), final(self).gid() == old(self).gid();
}
impl<A: Actor> ActorFutures for A {
    #[verifier::external_body] fn started__fut<'a>(&'a mut self, ctx: &'a mut Context<Self>) -> (r: StartedFut<'a>) { unimplemented!() }
    #[verifier::external_body] fn stopped__fut<'a>(&'a mut self, ctx: &'a mut Context<Self>) -> (r: UnitCbFut<'a>) { unimplemented!() }
}
