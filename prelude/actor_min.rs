// ===== prelude/actor_min.rs — units that never run a callback only need the trait names =====
pub trait Actor: Sized { spec fn gid(&self) -> int; }
