// ===== prelude/h_sender.rs — the four boxed closure kinds of Sender / WeakSender =====
pub struct SendTag; pub struct ForceTag; pub struct DownTag; pub struct UpTag;
// what the send / force-send closure of a Sender does when called: the submit through the captured channel closure, of the payload
// closure literal nested inside it (selected by which literal this boxed object is)
pub open spec fn sender_fn_post(code: int, chan: int, mid: int, pre: &World, post: &World, ok: bool) -> bool {
    if code == Sender__new__closure0__code() { submit_post(chan, task_uid(Sender__new__closure0__closure0__code(), mid, 0), false, pre, post, ok) }
    else if code == Sender__new__closure1__code() { submit_post(chan, task_uid(Sender__new__closure1__closure0__code(), mid, 0), true, pre, post, ok) }
    else { true }
}
impl<M> BoxedFn<(SendTag, M)> {
    #[verifier::external_body]
    pub fn send(&self, msg: M, Tracked(w): Tracked<&mut World>) -> (r: Result<(), ActorError>)
        ensures sender_fn_post(self.code(), self.cap0(), mid_of(&msg), old(w), final(w), r is Ok)
    { unimplemented!() }
}
impl<M> BoxedFn<(ForceTag, M)> {
    #[verifier::external_body]
    pub fn send(&self, msg: M, Tracked(w): Tracked<&mut World>) -> (r: Result<(), ActorError>)
        ensures sender_fn_post(self.code(), self.cap0(), mid_of(&msg), old(w), final(w), r is Ok)
    { unimplemented!() }
}
// the upgrade closure (contract = lifted bodies Sender__new__closure2 / WeakSender__from_weak_tx__closure0)
pub open spec fn upgraded_sender<M: Message<Response = ()>>(f_cap0: int, f_cap1: int, r: &Option<Sender<M>>) -> bool {
    &&& (*r is Some ==> r->0.wf() && r->0.chan() == f_cap0 && r->0.id.0 as int == f_cap1)
    &&& (*r is Some) == both_alive(f_cap0)
}
impl<M: Message<Response = ()>> BoxedFn<(UpTag, M)> {
    #[verifier::external_body]
    pub fn upgrade(&self) -> (r: Option<Sender<M>>) ensures upgraded_sender(self.cap0(), self.cap1(), &r) { unimplemented!() }
}
// the downgrade closure (contract = lifted body Sender__new__closure3)
impl<M: Message<Response = ()>> BoxedFn<(DownTag, M)> {
    #[verifier::external_body]
    pub fn downgrade(&self) -> (r: WeakSender<M>)
        ensures r.upgrade.captured() == self.captured(), r.upgrade.cap0() == self.cap0(), r.upgrade.cap1() == self.cap1(), r.upgrade.code() == self.cap2(), r.id.0 as int == self.cap1()
    { unimplemented!() }
}

// the future `Sender::send` returns, as a VALUE (rule A1b; only a changed tree uses it): awaited, it is the waiting submit of `send`;
// polled once and dropped (`FutureExt::now_or_never`) it has completed (Some) or not (None) - and in the latter case SinkExt::send may
// already have put the payload into the queue before it started to wait
#[verifier::external_body] pub struct SenderSendFut { x: u8 }
impl SenderSendFut { pub uninterp spec fn chan(&self) -> int; pub uninterp spec fn pid(&self) -> int; }
impl VFuture for SenderSendFut {
    type Output = Result<(), ActorError>;
    open spec fn pre(&self, w: &World) -> bool { true }
    open spec fn done(&self, w0: &World, w1: &World, out: &Result<(), ActorError>) -> bool { submit_post(self.chan(), self.pid(), false, w0, w1, *out is Ok) }
    open spec fn dropped(&self, w0: &World, w1: &World) -> bool { submit_try_post(self.chan(), self.pid(), false, w0, w1, true) || submit_try_post(self.chan(), self.pid(), false, w0, w1, false) }
    uninterp spec fn ready_at(&self) -> nat;
    #[verifier::external_body] fn await_(self, Tracked(w): Tracked<&mut World>) -> (r: Self::Output) { unimplemented!() }
}
impl<M: Message<Response = ()>> Sender<M> {
    #[verifier::external_body]
    pub fn send__fut(&self, msg: M) -> (r: SenderSendFut)
        ensures r.chan() == self.chan(), r.pid() == task_uid(Sender__new__closure0__closure0__code(), mid_of(&msg), 0)
    { unimplemented!() }
}
