// ===== prelude/ctx.rs — what context.rs stands on: child table, abort handles, the actor's runtime hooks, handle stand-ins =====
pub enum ActorError { AlreadyStopped, SendFailed }
#[verifier::external_body] pub struct SendError { x: u8 }
impl vstd::std_specs::convert::FromSpecImpl<SendError> for ActorError { open spec fn obeys_from_spec() -> bool { true } open spec fn from_spec(e: SendError) -> Self { ActorError::SendFailed } }
impl From<SendError> for ActorError { fn from(e: SendError) -> (r: Self) { ActorError::SendFailed } }
pub enum Payload<A> { Task(core::marker::PhantomData<A>), Stop, Restart }
pub open spec fn ppid<A>(p: &Payload<A>) -> int { match p { Payload::Task(_) => 0int, Payload::Stop => -1int, Payload::Restart => -2int } }
impl<A> ArcForceTx<A> {
    // ForceTxFn::send (contract proved in unit chan); the trait method returns the crate`s Result, i.e. an ActorError
    #[verifier::external_body]
    pub fn send(&self, msg: Payload<A>, Tracked(w): Tracked<&mut World>) -> (r: Result<(), ActorError>)
        ensures r is Ok ==> final(w).trace == old(w).trace.push(Ev::Enq { chan: self.chan(), pid: ppid(&msg), force: true }), r is Err ==> final(w).trace == old(w).trace,
                final(w).aborted == old(w).aborted && final(w).bg == old(w).bg && final(w).lc == old(w).lc
    { unimplemented!() }
}
// ---- the child table `HashMap<TypeId, Vec<AnyBoxObj>>`
#[verifier::external_body] #[verifier::accept_recursive_types(K)] #[verifier::accept_recursive_types(V)] pub struct VMap<K, V> { p: core::marker::PhantomData<(K, V)> }
impl<K, V> OwnView for VMap<K, V> { open spec fn own(&self) -> Own { own_none() } }     // children are handles to OTHER actors; they are reported through view(), not through the own-channel view
impl<T> OwnView for Vec<T> { open spec fn own(&self) -> Own { own_none() } }
pub open spec fn vals(v: &Vec<AnyBoxObj>) -> Seq<AnyVal> { v@.map_values(|b: AnyBoxObj| b.val()) }
impl VMap<TypeIdV, Vec<AnyBoxObj>> {
    pub uninterp spec fn view(&self) -> Map<int, Seq<AnyVal>>;
    #[verifier::external_body]
    pub fn push_at(&mut self, k: TypeIdV, v: AnyBoxObj)
        ensures final(self)@ == old(self)@.insert(k.id(), (if old(self)@.dom().contains(k.id()) { old(self)@[k.id()] } else { Seq::empty() }).push(v.val()))
    { unimplemented!() }
    #[verifier::external_body]
    pub fn remove(&mut self, k: &TypeIdV) -> (r: Option<Vec<AnyBoxObj>>)
        ensures r is Some <==> old(self)@.dom().contains(k.id()), r is Some ==> vals(&r->0) == old(self)@[k.id()], final(self)@ == old(self)@.remove(k.id())
    { unimplemented!() }
    #[verifier::external_body]
    pub fn clear(&mut self) ensures final(self)@ == Map::<int, Seq<AnyVal>>::empty() { unimplemented!() }
    // entry(k).or_insert(v) / or_insert_with(|| v): only a vacant entry is filled
    #[verifier::external_body]
    pub fn entry_or_insert(&mut self, k: TypeIdV, v: Vec<AnyBoxObj>)
        ensures final(self)@ == (if old(self)@.dom().contains(k.id()) { old(self)@ } else { old(self)@.insert(k.id(), vals(&v)) })
    { unimplemented!() }
    #[verifier::external_body]
    pub fn get(&self, k: &TypeIdV) -> (r: Option<&Vec<AnyBoxObj>>)
        ensures r is Some <==> self@.dom().contains(k.id()), r is Some ==> vals(r->0) == self@[k.id()]
    { unimplemented!() }
}
// ---- futures::future::{abortable, AbortHandle}
#[verifier::external_body] pub struct AbortHandleV { x: u8 }
impl AbortHandleV {
    pub uninterp spec fn timer(&self) -> int;
    #[verifier::external_body]
    pub fn abort(&self, Tracked(w): Tracked<&mut World>) ensures *final(w) == (World { aborted: old(w).aborted.insert(self.timer()), ..*old(w) }) { unimplemented!() }
    #[verifier::external_body] pub fn is_aborted(&self) -> (r: bool) { unimplemented!() }
}
pub open spec fn timers(v: Seq<AbortHandleV>) -> Seq<int> { v.map_values(|h: AbortHandleV| h.timer()) }
// `for x in v.drain(..)` (rule T3): take the elements front to back until the vector is empty
pub trait DrainNext<T>: Sized {
    spec fn dn_view(&self) -> Seq<T>;
    fn drain_next(&mut self) -> (r: Option<T>)
        ensures old(self).dn_view().len() > 0 ==> r == Some(old(self).dn_view()[0]) && final(self).dn_view() == old(self).dn_view().drop_first(),
                old(self).dn_view().len() == 0 ==> r is None && final(self).dn_view() == old(self).dn_view();
}
impl<T> DrainNext<T> for Vec<T> { open spec fn dn_view(&self) -> Seq<T> { self@ } #[verifier::external_body] fn drain_next(&mut self) -> (r: Option<T>) { unimplemented!() } }
impl ClosureObj { pub uninterp spec fn timer(&self) -> int; }
// abortable(task): the same code object, now cancellable through the returned handle
#[verifier::external_body]
pub fn abortable(task: ClosureObj) -> (r: (ClosureObj, AbortHandleV))
    ensures r.0.captured() == task.captured(), r.0.code() == task.code(), r.0.timer() == r.1.timer()
{ unimplemented!() }
impl ClosureObj { #[verifier::external_body] pub fn map_unit(self) -> (r: ClosureObj) ensures r.captured() == self.captured(), r.code() == self.code(), r.timer() == self.timer() { unimplemented!() } }
// ---- the actor's runtime hooks (`SpawnFutures` over the default spawner; contracts proved per runtime in units spawner_*)
pub trait Actor: Sized {
    spec fn gid(&self) -> int;
    fn spawn_future(future: ClosureObj, Tracked(w): Tracked<&mut World>)
        ensures *final(w) == (World { bg: old(w).bg.push(future.timer()), ..*old(w) });
    fn sleep(duration: u64, Tracked(w): Tracked<&mut World>)
        ensures emits(old(w), final(w), Ev::Slept { d: duration as int });
}
pub trait RestartableActor: Actor {}
pub trait Message: Sized { type Response; }
pub trait Handler<M: Message>: Actor {}
pub uninterp spec fn mid_of<M>(m: &M) -> int;
pub broadcast axiom fn own_of_message<M: Message>(m: &M) ensures #[trigger] own_of(m) == own_none();   // client values own nothing of hannibal's channels
pub broadcast axiom fn own_of_user_code(c: &ClosureObj) ensures #[trigger] own_of(c) == c.captured();
// ---- handle stand-ins (contracts proved in units h_sender / h_caller)
#[verifier::external_body] #[verifier::accept_recursive_types(M)] pub struct WeakSender<M> { p: core::marker::PhantomData<M> }
#[verifier::external_body] #[verifier::accept_recursive_types(M)] pub struct Sender<M> { p: core::marker::PhantomData<M> }
pub open spec fn one_enq(pre: &World, post: &World, chan: int, force: bool, ok: bool) -> bool {
    &&& post.lc == pre.lc && post.aborted == pre.aborted && post.bg == pre.bg
    &&& (ok ==> post.trace == pre.trace.push(post.trace.last()) && post.trace.drop_last() == pre.trace && post.trace.last() is Enq && post.trace.last()->Enq_chan == chan && post.trace.last()->Enq_force == force)
    &&& (!ok ==> post.trace == pre.trace)
}
impl<M> OwnView for WeakSender<M> { open spec fn own(&self) -> Own { Own { none: false, chan: self.chan(), s_tx: false, s_force: false, w_tx: true, w_force: true, mixed: false } } }
impl<M> WeakSender<M> {
    pub uninterp spec fn chan(&self) -> int; pub uninterp spec fn cid(&self) -> int;
    #[verifier::external_body]
    pub fn from_weak_tx<A>(weak_tx: WeakTx<A>, weak_force_tx: WeakForceTx<A>, id: ContextID) -> (r: Self)
        ensures weak_tx.chan() == weak_force_tx.chan() ==> r.chan() == weak_tx.chan() && r.cid() == id.0 as int
    { unimplemented!() }
    #[verifier::external_body]
    pub fn try_force_send(&self, msg: M, Tracked(w): Tracked<&mut World>) -> (r: Result<(), ActorError>) ensures one_enq(old(w), final(w), self.chan(), true, r is Ok) { unimplemented!() }
    #[verifier::external_body]
    pub fn try_send(&self, msg: M, Tracked(w): Tracked<&mut World>) -> (r: Result<(), ActorError>) ensures one_enq(old(w), final(w), self.chan(), false, r is Ok) { unimplemented!() }
}
impl<M> OwnView for Sender<M> { open spec fn own(&self) -> Own { Own { none: false, chan: self.chan(), s_tx: true, s_force: true, w_tx: false, w_force: false, mixed: false } } }
impl<M> WeakSender<M> {
    // an explicit upgrade puts a STRONG Sender into the hands of the caller for as long as the binding lives. Harmless between a sleep and
    // the next one (that is what `try_force_send` does inside); a binding that is still in scope at a sleep keeps the timer's own actor
    // alive for a period: rule G7 (`nohold` in the unit file) marks such a site with `hx_strong_handle_held_across_a_sleep()`
    #[verifier::external_body]
    pub fn upgrade_sender(&self, Tracked(w): Tracked<&mut World>) -> (r: Option<Sender<M>>)
        ensures r is Some ==> r->0.chan() == self.chan() && r->0.cid() == self.cid(),
                same_world(old(w), final(w))
    { unimplemented!() }
}
impl<M> Sender<M> {
    pub uninterp spec fn chan(&self) -> int; pub uninterp spec fn cid(&self) -> int;
    #[verifier::external_body]
    pub fn force_send(&self, msg: M, Tracked(w): Tracked<&mut World>) -> (r: Result<(), ActorError>) ensures one_enq(old(w), final(w), self.chan(), true, r is Ok) { unimplemented!() }
    #[verifier::external_body]
    pub fn send(&self, msg: M, Tracked(w): Tracked<&mut World>) -> (r: Result<(), ActorError>) ensures one_enq(old(w), final(w), self.chan(), false, r is Ok) { unimplemented!() }
}
impl<M> AnyValued for Sender<M> { open spec fn any_val(&self) -> AnyVal { AnyVal { tid: type_id::<Sender<M>>(), slot: self.chan(), cid: self.cid() } } }
// user values handed to timers: `message.clone()`, `message_fn()`, `task.await`
#[verifier::external_body]
pub fn call_boxed<M>(f: ClosureObj) -> (r: M) { unimplemented!() }
impl VFuture for ClosureObj {
    type Output = ();
    open spec fn pre(&self, w: &World) -> bool { true }
    open spec fn done(&self, w0: &World, w1: &World, out: &()) -> bool { emits(w0, w1, Ev::BgRun { code: self.code() }) }
    open spec fn dropped(&self, w0: &World, w1: &World) -> bool { same_world(w0, w1) }
    uninterp spec fn ready_at(&self) -> nat;
    #[verifier::external_body] fn await_(self, Tracked(w): Tracked<&mut World>) -> (r: ()) { unimplemented!() }
}

// ---- WeakCaller / WeakAddr stand-ins (contracts proved in units h_caller / h_addr)
#[verifier::external_body] #[verifier::accept_recursive_types(M)] pub struct WeakCaller<M> { p: core::marker::PhantomData<M> }
impl<M> OwnView for WeakCaller<M> { open spec fn own(&self) -> Own { Own { none: false, chan: self.chan(), s_tx: false, s_force: false, w_tx: true, w_force: true, mixed: false } } }
impl<M> WeakCaller<M> {
    pub uninterp spec fn chan(&self) -> int; pub uninterp spec fn cid(&self) -> int;
    // weakcaller.from-weak-tx-is-weak-same-actor (U-HCALLER)
    #[verifier::external_body]
    pub fn from_weak_tx<A>(weak_tx: WeakTx<A>, weak_force_tx: WeakForceTx<A>, id: ContextID) -> (r: Self)
        ensures weak_tx.chan() == weak_force_tx.chan() ==> r.chan() == weak_tx.chan() && r.cid() == id.0 as int
    { unimplemented!() }
}
#[verifier::external_body] #[verifier::accept_recursive_types(A)] pub struct WeakAddr<A> { p: core::marker::PhantomData<A> }
impl<A> OwnView for WeakAddr<A> { open spec fn own(&self) -> Own { Own { none: false, chan: self.chan(), s_tx: false, s_force: false, w_tx: true, w_force: true, mixed: false } } }
impl<A> WeakAddr<A> { pub uninterp spec fn chan(&self) -> int; pub uninterp spec fn cid(&self) -> int; pub uninterp spec fn slot(&self) -> int; }
// the future `Sender::send` returns, as a VALUE (rule A1n; only a changed tree uses it): polled once and dropped it has completed (Some)
// or not (None) - and in the latter case the payload may already sit in the queue (SinkExt::send enqueues, then waits for space)
#[verifier::external_body] pub struct SenderSendFut { x: u8 }
impl SenderSendFut { pub uninterp spec fn chan(&self) -> int; }
impl VFuture for SenderSendFut {
    type Output = Result<(), ActorError>;
    open spec fn pre(&self, w: &World) -> bool { true }
    open spec fn done(&self, w0: &World, w1: &World, out: &Result<(), ActorError>) -> bool { one_enq(w0, w1, self.chan(), false, *out is Ok) }
    open spec fn dropped(&self, w0: &World, w1: &World) -> bool { one_enq(w0, w1, self.chan(), false, true) || one_enq(w0, w1, self.chan(), false, false) }
    uninterp spec fn ready_at(&self) -> nat;
    #[verifier::external_body] fn await_(self, Tracked(w): Tracked<&mut World>) -> (r: Self::Output) { unimplemented!() }
}
impl<M> Sender<M> {
    #[verifier::external_body] pub fn send__fut(&self, msg: M) -> (r: SenderSendFut) ensures r.chan() == self.chan() { unimplemented!() }
}
// rule G7: the marker's precondition is the obligation (never satisfiable: the shape itself is the defect)
pub fn hx_strong_handle_held_across_a_sleep()
    requires false,                                                                            // @ob timer.no-strong-handle-to-the-own-actor-is-held-across-a-sleep C10,C05,C06,C16,C03,C13
{ }
