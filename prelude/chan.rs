// ===== prelude/chan.rs — the receiving end as a PollFn stream =====
#[verifier::external_body] #[verifier::accept_recursive_types(A)] pub struct PayloadStreamObj<A> { p: core::marker::PhantomData<A> }
impl<A> PayloadStreamObj<A> { pub uninterp spec fn chan(&self) -> int; }
impl<A> OwnView for PayloadStreamObj<A> { uninterp spec fn own(&self) -> Own; }     // what the receiving closure captured (poll_fn_stream)
// futures::stream::poll_fn(Box::new(closure)): a stream that polls the receiver the closure captured
#[verifier::external_body]
pub fn poll_fn_stream<A>(f: BoxedFn<(A,)>) -> (r: PayloadStreamObj<A>) ensures r.chan() == f.cap0(), r.own() == f.captured() { unimplemented!() }
#[verifier::external_body] #[verifier::accept_recursive_types(A)] pub struct TaskFnObj<A> { p: core::marker::PhantomData<A> }

// the boxed future a waiting submit closure returns (`Pin<Box<dyn Future<Output = Result<()>> + Send>>`); only its identity matters to the adapter contracts
#[verifier::external_body] pub struct SubmitFut { x: u8 }

// std::sync::Mutex around a raw sender (a change may keep ONE long-lived sender instead of a fresh clone per submission): `lock()` hands
// out that same sender; whether it is still `fresh()` is unknown (it may have sent before and be parked). Poisoning is not modelled.
#[verifier::external_body] #[verifier::accept_recursive_types(T)] pub struct StdMutex<T> { p: core::marker::PhantomData<T> }
#[verifier::external_body] #[verifier::accept_recursive_types(T)] pub struct StdMutexGuard<T> { p: core::marker::PhantomData<T> }
pub struct LockResultV<G> { pub g: G }
pub struct PoisonIntoInner;
impl<G> LockResultV<G> {
    pub fn unwrap(self) -> (r: G) ensures r == self.g { self.g }
    pub fn expect(self, msg: &str) -> (r: G) ensures r == self.g { self.g }
    pub fn unwrap_or_else(self, f: PoisonIntoInner) -> (r: G) ensures r == self.g { self.g }
}
impl<T> StdMutex<MpscSender<T>> {
    pub uninterp spec fn q(&self) -> int;
    #[verifier::external_body] pub fn new(t: MpscSender<T>) -> (r: Self) ensures r.q() == t.q() { unimplemented!() }
    #[verifier::external_body] pub fn lock(&self) -> (r: LockResultV<StdMutexGuard<MpscSender<T>>>) ensures r.g.q() == self.q() { unimplemented!() }
}
impl<T> OwnView for StdMutex<MpscSender<T>> { open spec fn own(&self) -> Own { Own { none: false, chan: self.q(), s_tx: true, s_force: true, w_tx: false, w_force: false, mixed: false } } }
impl<T> StdMutexGuard<MpscSender<T>> {
    pub uninterp spec fn q(&self) -> int;
    pub uninterp spec fn fresh(&self) -> bool;
    #[verifier::external_body]
    pub fn start_send(&mut self, msg: T, Tracked(w): Tracked<&mut World>) -> (r: Result<(), SendError>)
        ensures final(self).q() == old(self).q(), submit_try_post(old(self).q(), pid_of(&msg), true, old(w), final(w), r is Ok),
            old(self).fresh() && r is Err ==> final(w).closed.contains(old(self).q()),
    { unimplemented!() }
    #[verifier::external_body]
    pub fn try_send(&mut self, msg: T, Tracked(w): Tracked<&mut World>) -> (r: Result<(), TrySendError<T>>)
        ensures final(self).q() == old(self).q(), submit_try_post(old(self).q(), pid_of(&msg), true, old(w), final(w), r is Ok),
            old(self).fresh() && r is Err ==> final(w).closed.contains(old(self).q()),
    { unimplemented!() }
}
