// replay probe for C07: an interval registered in started() must not keep firing from the previous incarnation after a restart
use hannibal::{prelude::*, RestartableActor};
use std::{sync::{Arc, atomic::{AtomicUsize, Ordering}}, time::Duration};
#[derive(Default)]
struct A1 { ticks: Arc<AtomicUsize> }
impl Actor for A1 {
    async fn started(&mut self, ctx: &mut Context<Self>) -> DynResult<()> { ctx.interval(Tick, Duration::from_millis(20)); Ok(()) }
}
impl RestartableActor for A1 {}
#[derive(Clone)] struct Tick; impl Message for Tick { type Response = (); }
impl Handler<Tick> for A1 { async fn handle(&mut self, _c: &mut Context<Self>, _m: Tick) { self.ticks.fetch_add(1, Ordering::SeqCst); } }
#[tokio::main]
async fn main() {
    let ticks = Arc::new(AtomicUsize::new(0));
    let mut a = A1 { ticks: ticks.clone() }.spawn();
    tokio::time::sleep(Duration::from_millis(110)).await;
    a.restart().unwrap(); a.ping().await.unwrap();
    let before = ticks.load(Ordering::SeqCst);
    tokio::time::sleep(Duration::from_millis(400)).await;
    let after = ticks.load(Ordering::SeqCst) - before;
    println!("ticks in 400ms after restart = {after} (one 20ms timer: about 20; two timers: about 40)");
    if after > 29 { println!("REPRODUCED timers of the previous incarnation still fire after restart"); } else { println!("not reproduced"); }
}
