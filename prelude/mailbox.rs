// ===== prelude/mailbox.rs — futures-channel mpsc + oneshot and the payload objects (read from futures-channel 0.3.31) =====
// One queue per `channel(n)` / `unbounded()`; every Sender clone carries it. `start_send` (= try_send on a fresh clone, never parked)
// appends iff the receiver is alive; `SinkExt::send` appends the same way at its first poll and then (bounded only) waits until
// un-parked or disconnected. Linearizable FIFO; dropping the receiver closes the queue and drops what is queued.
#[verifier::external_body] #[verifier::accept_recursive_types(T)] pub struct MpscSender<T> { p: core::marker::PhantomData<T> }
#[verifier::external_body] #[verifier::accept_recursive_types(T)] pub struct MpscReceiver<T> { p: core::marker::PhantomData<T> }
#[verifier::external_body] pub struct SendError { x: u8 }
#[verifier::external_body] #[verifier::accept_recursive_types(T)] pub struct TrySendError<T> { p: core::marker::PhantomData<T> }
impl<T> TrySendError<T> { #[verifier::external_body] pub fn into_send_error(self) -> (r: SendError) { unimplemented!() } }
pub uninterp spec fn queue_cap(q: int) -> Option<usize>;       // the capacity the queue was created with (None: unbounded)
pub uninterp spec fn pid_of<T>(t: &T) -> int;                 // ghost identity of a payload value
// a raw mpsc sender keeps the queue open for as long as it lives: in the ownership view it counts like a strong handle of that queue
impl<T> OwnView for MpscSender<T> { open spec fn own(&self) -> Own { Own { none: false, chan: self.q(), s_tx: true, s_force: true, w_tx: false, w_force: false, mixed: false } } }
impl<T> OwnView for MpscReceiver<T> { open spec fn own(&self) -> Own { own_none() } }
impl<T> MpscSender<T> {
    pub uninterp spec fn q(&self) -> int;
    // a sender that has not sent anything yet (every clone starts like that): the channel keeps a slot of its own for each sender, so a
    // fresh one is never refused for lack of space (futures-channel: `maybe_parked` is false on a new clone); a sender that has sent
    // before may be parked, and `start_send` / `try_send` on a parked sender fail with `Full`
    pub uninterp spec fn fresh(&self) -> bool;
    #[verifier::external_body] pub fn clone(&self) -> (r: Self) ensures r.q() == self.q(), r.fresh() { unimplemented!() }
    #[verifier::external_body] pub fn len(&self) -> (r: usize) { unimplemented!() }
    // Sender::is_closed: true only if the receiving half is gone (and a closed queue stays closed); looking does nothing else
    #[verifier::external_body]
    pub fn is_closed(&self, Tracked(w): Tracked<&mut World>) -> (r: bool)
        ensures submit_try_post(self.q(), 0, true, old(w), final(w), false), r ==> final(w).closed.contains(self.q())   // (the frame of an attempt that enqueued nothing)
    { unimplemented!() }
    // Sender::close_channel: closes the queue from the SENDING side for every sender (what is queued is still delivered). hannibal never
    // does that: a mailbox is closed by its actor going away, not by someone who submits to it. The call itself is the finding.
    #[verifier::external_body]
    pub fn close_channel(&mut self, Tracked(w): Tracked<&mut World>)
        requires false,                                                                        // @ob chan.only-the-actor-closes-its-mailbox C04,C12,C05,C02
    { unimplemented!() }
    // the non-waiting operation: enqueue now or fail; on a fresh sender it fails only because the receiver is gone
    #[verifier::external_body]
    pub fn start_send(&mut self, msg: T, Tracked(w): Tracked<&mut World>) -> (r: Result<(), SendError>)
        ensures final(self).q() == old(self).q(), submit_try_post(old(self).q(), pid_of(&msg), true, old(w), final(w), r is Ok),
            old(self).fresh() && r is Err ==> final(w).closed.contains(old(self).q()),
    { unimplemented!() }
    // Sender::try_send: the same operation, handing the message back on failure
    #[verifier::external_body]
    pub fn try_send(&mut self, msg: T, Tracked(w): Tracked<&mut World>) -> (r: Result<(), TrySendError<T>>)
        ensures final(self).q() == old(self).q(), submit_try_post(old(self).q(), pid_of(&msg), true, old(w), final(w), r is Ok),
            old(self).fresh() && r is Err ==> final(w).closed.contains(old(self).q()),
    { unimplemented!() }
    // UnboundedSender::unbounded_send: enqueue now or fail because the receiver is gone
    #[verifier::external_body]
    pub fn unbounded_send(&self, msg: T, Tracked(w): Tracked<&mut World>) -> (r: Result<(), TrySendError<T>>)
        ensures submit_post(self.q(), pid_of(&msg), true, old(w), final(w), r is Ok)
    { unimplemented!() }
    // SinkExt::feed: enqueue as soon as the sink accepts it, WITHOUT the flush that waits for the receiver: on a bounded queue not a
    // waiting submit; on an unbounded one flushing is a no-op and `feed` is what `send` is
    #[verifier::external_body]
    pub fn feed(&mut self, msg: T, Tracked(w): Tracked<&mut World>) -> (r: Result<(), SendError>)
        ensures final(self).q() == old(self).q(), submit_post(old(self).q(), pid_of(&msg), queue_cap(old(self).q()) is Some, old(w), final(w), r is Ok)
    { unimplemented!() }
    // SinkExt::send: the waiting operation (enqueue, then flush: on a bounded queue wait until the receiver catches up or goes away)
    #[verifier::external_body]
    pub fn send(&mut self, msg: T, Tracked(w): Tracked<&mut World>) -> (r: Result<(), SendError>)
        ensures final(self).q() == old(self).q(), submit_post(old(self).q(), pid_of(&msg), false, old(w), final(w), r is Ok)
    { unimplemented!() }
}
// what one attempt to submit does: others may have run before and (waiting path) after it; Ok means exactly one enqueue of this payload on
// this queue happened between call and return; Err means nothing was enqueued; a queue known to be closed refuses
pub open spec fn submit_try_post(q: int, pid: int, force: bool, pre: &World, post: &World, ok: bool) -> bool {
    &&& post.lc == pre.lc && post.cells =~= pre.cells && post.last_pid == pre.last_pid && post.last_slot == pre.last_slot && shared_moved(sh(pre), sh(post))
    &&& (ok ==> post.trace == pre.trace.push(Ev::Enq { chan: q, pid: pid, force: force }))
    &&& (!ok ==> post.trace == pre.trace)
    &&& (pre.closed.contains(q) ==> !ok)
}
// a submission proper: in addition it is refused only by a mailbox whose receiver is gone (never for lack of space)
pub open spec fn submit_post(q: int, pid: int, force: bool, pre: &World, post: &World, ok: bool) -> bool {
    &&& submit_try_post(q, pid, force, pre, post, ok)
    &&& (!ok ==> post.closed.contains(q))
}
impl<T> MpscReceiver<T> {
    pub uninterp spec fn q(&self) -> int;
    // Stream::poll_next on the receiving half: Ready(Some(head)) removes exactly the head of this queue, Ready(None) only when closed
    // and empty, Pending removes nothing
    #[verifier::external_body]
    pub fn poll_next(&mut self, ctx: &mut TaskCx, Tracked(w): Tracked<&mut World>) -> (r: Poll<Option<T>>)
        ensures final(self).q() == old(self).q(), recv_post(old(self).q(), old(w), final(w), &r)
    { unimplemented!() }
    // StreamExt::poll_next_unpin: the same poll, for a stream that is Unpin (the receiver is)
    #[verifier::external_body]
    pub fn poll_next_unpin(&mut self, ctx: &mut TaskCx, Tracked(w): Tracked<&mut World>) -> (r: Poll<Option<T>>)
        ensures final(self).q() == old(self).q(), recv_post(old(self).q(), old(w), final(w), &r)
    { unimplemented!() }
}
#[verifier::external_body] pub struct TryRecvError { x: u8 }
impl<T> MpscReceiver<T> {
    // Receiver::try_next: the non-waiting poll: Ok(Some(head)) removes the head, Ok(None) closed and empty, Err nothing there right now
    #[verifier::external_body]
    pub fn try_next(&mut self, Tracked(w): Tracked<&mut World>) -> (r: Result<Option<T>, TryRecvError>)
        ensures final(self).q() == old(self).q(),
            r is Ok ==> recv_post(old(self).q(), old(w), final(w), &Poll::Ready(r->Ok_0)),
            r is Err ==> recv_post(old(self).q(), old(w), final(w), &Poll::<Option<T>>::Pending)
    { unimplemented!() }
}
impl<T> MpscReceiver<T> {
    // Receiver::close: closes the receiving half for good (senders are refused from then on); what is queued can still be received
    #[verifier::external_body]
    pub fn close(&mut self, Tracked(w): Tracked<&mut World>)
        ensures final(self).q() == old(self).q(), *final(w) == (World { closed: old(w).closed.insert(old(self).q()), ..*old(w) })
    { unimplemented!() }
}
#[verifier::external_body] pub struct TaskCx { x: u8 }          // core::task::Context<'_>
pub enum Poll<T> { Ready(T), Pending }                          // core::task::Poll
// what one poll of the receiving closure may do: pop the head and hand it out, report the end, or nothing at all
pub open spec fn recv_post<T>(q: int, pre: &World, post: &World, r: &Poll<Option<T>>) -> bool {
    &&& post.lc == pre.lc && post.cells =~= pre.cells && post.last_pid == pre.last_pid && post.last_slot == pre.last_slot && shared_moved(sh(pre), sh(post))
    &&& match r {
        Poll::Ready(Some(e)) => post.trace == pre.trace.push(Ev::Pop { chan: q, pid: pid_of(e) }),
        Poll::Ready(None) => post.trace == pre.trace.push(Ev::PopEnd { chan: q }),
        Poll::Pending => post.trace == pre.trace,
    }
    // only the receiving half can close its queue, and the caller of a poll holds it: a poll does not change whether the queue is closed
    &&& post.closed.contains(q) == pre.closed.contains(q)
}
#[verifier::external_body]
pub fn mpsc_channel<T>(buffer: usize) -> (r: (MpscSender<T>, MpscReceiver<T>))
    ensures r.0.q() == r.1.q(), queue_cap(r.0.q()) == Some(buffer), fresh_queue(r.0.q())
{ unimplemented!() }
#[verifier::external_body]
pub fn mpsc_unbounded<T>() -> (r: (MpscSender<T>, MpscReceiver<T>))
    ensures r.0.q() == r.1.q(), queue_cap(r.0.q()) is None, fresh_queue(r.0.q())
{ unimplemented!() }
pub uninterp spec fn fresh_queue(q: int) -> bool;             // marker: q was created by this call (no other handle refers to it)

// oneshot response slots: one send; the receiver yields the value sent, or Canceled iff the sender was dropped unsent
#[verifier::external_body] #[verifier::accept_recursive_types(T)] pub struct OsSender<T> { p: core::marker::PhantomData<T> }
#[verifier::external_body] #[verifier::accept_recursive_types(T)] pub struct OsReceiver<T> { p: core::marker::PhantomData<T> }
pub uninterp spec fn rid<T>(t: &T) -> int;                    // ghost identity of a response value
pub uninterp spec fn slot_answered(s: int) -> bool;            // whether the slot's sender sent before it was dropped (the receiver yields Ok exactly then)
pub uninterp spec fn slot_value(s: int) -> int;               // the value sent on slot s (a slot is sent on at most once: the sender is consumed)
impl<T> OwnView for OsSender<T> { open spec fn own(&self) -> Own { own_none() } }
impl<T> OsSender<T> {
    pub uninterp spec fn slot(&self) -> int;
    // Sender::is_canceled: whether the receiving half is gone already (the caller gave up); says nothing about the message
    #[verifier::external_body] pub fn is_canceled(&self) -> (r: bool) { unimplemented!() }
    #[verifier::external_body]
    pub fn send(self, t: T, Tracked(w): Tracked<&mut World>) -> (r: Result<(), T>)
        ensures emits(old(w), final(w), Ev::OsSend { slot: self.slot(), val: rid(&t) }), slot_value(self.slot()) == rid(&t)
    { unimplemented!() }
}
impl<T> OsReceiver<T> { pub uninterp spec fn slot(&self) -> int; }
impl<T> VFuture for OsReceiver<T> {
    type Output = Result<T, Canceled>;
    open spec fn pre(&self, w: &World) -> bool { true }
    open spec fn done(&self, w0: &World, w1: &World, out: &Result<T, Canceled>) -> bool {
        &&& w1.lc == w0.lc && w1.cells =~= w0.cells && w1.last_pid == w0.last_pid && w1.last_slot == w0.last_slot && shared_moved(sh(w0), sh(w1))
        &&& w1.trace == w0.trace.push(Ev::OsRecv { slot: self.slot() })
        &&& (*out is Ok ==> rid(&out->Ok_0) == slot_value(self.slot()))
        &&& (*out is Ok) == slot_answered(self.slot())
    }
    open spec fn dropped(&self, w0: &World, w1: &World) -> bool { same_world(w0, w1) }
    uninterp spec fn ready_at(&self) -> nat;
    #[verifier::external_body] fn await_(self, Tracked(w): Tracked<&mut World>) -> (r: Self::Output) { unimplemented!() }
}
#[verifier::external_body]
pub fn oneshot_channel<T>(Tracked(w): Tracked<&mut World>) -> (r: (OsSender<T>, OsReceiver<T>))
    ensures r.0.slot() == r.1.slot(), *final(w) == (World { last_slot: r.0.slot(), ..*old(w) }), fresh_slot(r.0.slot(), old(w))
{ unimplemented!() }
pub uninterp spec fn fresh_slot(s: int, w: &World) -> bool;

// std::sync::atomic::AtomicBool behind an Arc (a flag shared between closures); its value is whatever other tasks left there
#[verifier::external_body] pub struct AtomicBoolV { x: u8 }
pub enum Ordering { Relaxed, Release, Acquire, AcqRel, SeqCst }
impl OwnView for AtomicBoolV { open spec fn own(&self) -> Own { own_none() } }
#[verifier::external_body] pub fn atomic_bool_new(v: bool) -> (r: AtomicBoolV) { unimplemented!() }
impl AtomicBoolV {
    #[verifier::external_body] pub fn clone(&self) -> (r: Self) { unimplemented!() }
    #[verifier::external_body] pub fn load(&self, o: Ordering) -> (r: bool) { unimplemented!() }
    #[verifier::external_body] pub fn store(&self, v: bool, o: Ordering) { unimplemented!() }
}
impl ArcNew<AtomicBoolV> for AtomicBoolV { open spec fn arc_ok(t: &AtomicBoolV, r: &Self) -> bool { true } #[verifier::external_body] fn arc_new_(t: AtomicBoolV) -> (r: Self) { unimplemented!() } }
