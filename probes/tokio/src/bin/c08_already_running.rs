// replay probe for C08: already_running must be None / Some(true) / Some(false) for unregistered / alive / terminated
use hannibal::{prelude::*, Service};
#[derive(Default)]
struct S1;
impl Actor for S1 {}
impl Service for S1 {}
#[tokio::main]
async fn main() {
    let unreg = S1::already_running().await;
    let s = S1::from_registry().await;
    let alive = S1::already_running().await;
    let mut s2 = s.clone(); s2.stop().unwrap(); let _ = s.await;
    let dead = S1::already_running().await;
    println!("unregistered={unreg:?} alive={alive:?} terminated={dead:?}");
    if unreg != None || alive != Some(true) || dead != Some(false) { println!("REPRODUCED already_running does not report None/Some(true)/Some(false)"); } else { println!("not reproduced"); }
}
