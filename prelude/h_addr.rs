// ===== prelude/h_addr.rs — the boxed upgrade closure of WeakAddr (contract = lifted body From<&Addr>@WeakAddr::from closure0) =====
pub struct UpTag;
pub open spec fn upgraded_addr<A>(chan: int, cid: int, slot: int, consumed: bool, r: &Option<Addr<A>>) -> bool {
    &&& (*r is Some ==> r->0.payload_tx.chan() == chan && r->0.payload_force_tx.chan() == chan && strong_both(r->0.own(), chan)
        && r->0.context_id.0 as int == cid && r->0.running.slot() == slot && r->0.running.consumed() == consumed)
    &&& (*r is Some) == both_alive(chan)        // it upgrades exactly when both halves still have a strong handle: nothing else is consulted
}
impl<A> BoxedFn<(UpTag, A)> {
    #[verifier::external_body]
    pub fn upgrade(&self) -> (r: Option<Addr<A>>) ensures upgraded_addr(self.cap0(), self.cap1(), self.cap2(), self.flag(), &r) { unimplemented!() }
}
pub trait AnyValued { spec fn any_val(&self) -> AnyVal; }
impl<A> AnyValued for Addr<A> { open spec fn any_val(&self) -> AnyVal { AnyVal { tid: 0, slot: self.running.slot(), cid: self.context_id.0 as int } } }
