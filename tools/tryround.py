#!/usr/bin/env python3
"""tools/tryround.py <seed-root> [ID ...]: apply every <seed-root>/<ID>/out/change*/patch.diff to a scratch copy of /repo and run the check
of property <ID>; one line per change (used while a round of independently written changes comes in, before they are confirmed and stored)"""
import subprocess, os, sys, shutil, tempfile, re, concurrent.futures
os.environ.setdefault("VERIF_CACHE", "/tmp/hannibal-vcache")  # memoize verifier runs by generated-file hash (corpus tools only)
ROOT = os.path.dirname(os.path.dirname(os.path.abspath(__file__)))
root = sys.argv[1]
ids = sys.argv[2:] or sorted(d for d in os.listdir(root) if re.match(r"[CF]\d\d$", d))
jobs = []
for i in ids:
    od = os.path.join(root, i, "out")
    if not os.path.isdir(od): continue
    for c in sorted(os.listdir(od)):
        p = os.path.join(od, c, "patch.diff")
        if os.path.exists(p): jobs.append((i, c, p))
def run(job):
    i, c, p = job
    # a round organised by source file names the broken property per change (property.txt)
    pf = os.path.join(os.path.dirname(p), "property.txt")
    g = i
    if os.path.exists(pf):
        m = re.search(r"C\d\d", open(pf).read())
        if m: i = m.group(0)
    c = c if g == i else "%s/%s" % (g, c)
    td = tempfile.mkdtemp(prefix="hannibal-round-")
    try:
        rp = os.path.join(td, "r"); os.makedirs(rp)
        subprocess.run(["rsync", "-a", "--exclude", "target", "--exclude", ".git", "/repo/", rp + "/"], check=True)
        pr = subprocess.run(["patch", "-p1", "-s", "-i", p], cwd=rp, stdout=subprocess.PIPE, stderr=subprocess.STDOUT, text=True)
        if pr.returncode: return (i, c, "PATCH-FAILED", pr.stdout[-100:])
        n = len(re.findall(r"^[+-][^+-]", open(p).read(), re.M))
        r = subprocess.run([os.path.join(ROOT, "check"), i, "--repo", rp, "--no-evidence", "--no-replay"], cwd=ROOT, stdout=subprocess.PIPE, stderr=subprocess.STDOUT, text=True)
        viol = sorted({re.search(r"obligation=(\S+)", l).group(1) for l in r.stdout.split("\n") if l.startswith("VIOLATION")})
        und = [l for l in r.stdout.split("\n") if l.startswith("UNDECIDED")]
        if r.returncode == 1 and viol: return (i, c, "detected", "%d lines; %s" % (n, ",".join(viol)[:150]))
        if r.returncode == 2: return (i, c, "undecided", "%d lines; %s" % (n, re.sub(r"^UNDECIDED property=\w+: ", "", und[0])[:230] if und else ""))
        if r.returncode == 0: return (i, c, "MISSED", "%d lines" % n)
        return (i, c, "exit%d" % r.returncode, r.stdout[-200:])
    finally:
        shutil.rmtree(td, ignore_errors=True)
with concurrent.futures.ThreadPoolExecutor(max_workers=5) as ex:
    for i, c, v, d in ex.map(run, jobs):
        print("%s %-8s %-10s %s" % (i, c, v, d))
