// ===== prelude/own.rs — ownership views (DESIGN §5.4) =====
// Every value that can keep an actor alive does so by strongly owning one of the two submit closures of its channel.
pub struct Own { pub none: bool, pub chan: int, pub s_tx: bool, pub s_force: bool, pub w_tx: bool, pub w_force: bool, pub mixed: bool }
pub open spec fn own_none() -> Own { Own { none: true, chan: 0, s_tx: false, s_force: false, w_tx: false, w_force: false, mixed: false } }
pub open spec fn own_join(a: Own, b: Own) -> Own {
    if a.none { b } else if b.none { a } else {
        Own { none: false, chan: a.chan, s_tx: a.s_tx || b.s_tx, s_force: a.s_force || b.s_force, w_tx: a.w_tx || b.w_tx, w_force: a.w_force || b.w_force, mixed: a.mixed || b.mixed || a.chan != b.chan }
    }
}
pub open spec fn strong_both(o: Own, c: int) -> bool { !o.none && !o.mixed && o.chan == c && o.s_tx && o.s_force }
pub open spec fn no_strong(o: Own) -> bool { !o.s_tx && !o.s_force }
pub open spec fn weak_both(o: Own, c: int) -> bool { !o.none && !o.mixed && o.chan == c && o.w_tx && o.w_force && no_strong(o) }
pub trait OwnView { spec fn own(&self) -> Own; }
// the view of an arbitrary captured value: the view of its type if it has one; client values (messages, user closures) own nothing of hannibal's channels (axioms per unit)
pub uninterp spec fn own_of<T>(t: &T) -> Own;
pub broadcast axiom fn own_of_view<T: OwnView>(t: &T) ensures #[trigger] own_of(t) == t.own();
impl<T: OwnView> OwnView for &T { open spec fn own(&self) -> Own { (**self).own() } }
impl OwnView for u64 { open spec fn own(&self) -> Own { own_none() } }
impl OwnView for bool { open spec fn own(&self) -> Own { own_none() } }
impl<T> OwnView for core::marker::PhantomData<T> { open spec fn own(&self) -> Own { own_none() } }
impl<T: OwnView> OwnView for Option<T> { open spec fn own(&self) -> Own { match self { Some(t) => t.own(), None => own_none() } } }

// channel.rs: `ChanTx<A> = Arc<dyn TxFn<A>>` etc. (rule T1 maps the alias right-hand sides to these stand-ins)
#[verifier::external_body] #[verifier::accept_recursive_types(A)] pub struct ArcTx<A> { p: core::marker::PhantomData<A> }
#[verifier::external_body] #[verifier::accept_recursive_types(A)] pub struct WeakTx<A> { p: core::marker::PhantomData<A> }
#[verifier::external_body] #[verifier::accept_recursive_types(A)] pub struct ArcForceTx<A> { p: core::marker::PhantomData<A> }
#[verifier::external_body] #[verifier::accept_recursive_types(A)] pub struct WeakForceTx<A> { p: core::marker::PhantomData<A> }
impl<A> ArcTx<A> { pub uninterp spec fn chan(&self) -> int; pub uninterp spec fn code(&self) -> int;
    #[verifier::external_body] pub fn clone(&self) -> (r: Self) ensures r.chan() == self.chan() { unimplemented!() }
    #[verifier::external_body] pub fn downgrade(&self) -> (r: WeakTx<A>) ensures r.chan() == self.chan() { unimplemented!() } }
impl<A> ArcForceTx<A> { pub uninterp spec fn chan(&self) -> int; pub uninterp spec fn code(&self) -> int;
    #[verifier::external_body] pub fn clone(&self) -> (r: Self) ensures r.chan() == self.chan() { unimplemented!() }
    #[verifier::external_body] pub fn downgrade(&self) -> (r: WeakForceTx<A>) ensures r.chan() == self.chan() { unimplemented!() } }
impl<A> WeakTx<A> { pub uninterp spec fn chan(&self) -> int;
    #[verifier::external_body] pub fn strong_count(&self) -> (r: usize) { unimplemented!() }
    #[verifier::external_body] pub fn clone(&self) -> (r: Self) ensures r.chan() == self.chan() { unimplemented!() }
    #[verifier::external_body] pub fn upgrade(&self) -> (r: Option<ArcTx<A>>) ensures r is Some ==> r->0.chan() == self.chan(), (r is Some) == tx_alive(self.chan()) { unimplemented!() } }
impl<A> WeakForceTx<A> { pub uninterp spec fn chan(&self) -> int;
    #[verifier::external_body] pub fn strong_count(&self) -> (r: usize) { unimplemented!() }
    #[verifier::external_body] pub fn clone(&self) -> (r: Self) ensures r.chan() == self.chan() { unimplemented!() }
    #[verifier::external_body] pub fn upgrade(&self) -> (r: Option<ArcForceTx<A>>) ensures r is Some ==> r->0.chan() == self.chan(), (r is Some) == force_alive(self.chan()) { unimplemented!() } }
// whether some strong handle of that half of the channel exists at the instant of the query (Weak::upgrade succeeds exactly then). The
// handle functions that upgrade contain no blocking operation: within one of them these are the facts of ONE instant
pub uninterp spec fn tx_alive(chan: int) -> bool;
pub uninterp spec fn force_alive(chan: int) -> bool;
pub open spec fn both_alive(chan: int) -> bool { tx_alive(chan) && force_alive(chan) }
impl<A> OwnView for ArcTx<A> { open spec fn own(&self) -> Own { Own { none: false, chan: self.chan(), s_tx: true, s_force: false, w_tx: false, w_force: false, mixed: false } } }
impl<A> OwnView for ArcForceTx<A> { open spec fn own(&self) -> Own { Own { none: false, chan: self.chan(), s_tx: false, s_force: true, w_tx: false, w_force: false, mixed: false } } }
impl<A> OwnView for WeakTx<A> { open spec fn own(&self) -> Own { Own { none: false, chan: self.chan(), s_tx: false, s_force: false, w_tx: true, w_force: false, mixed: false } } }
impl<A> OwnView for WeakForceTx<A> { open spec fn own(&self) -> Own { Own { none: false, chan: self.chan(), s_tx: false, s_force: false, w_tx: false, w_force: true, mixed: false } } }

// a boxed closure object (`Box<dyn ..Fn..>`): its view is the join of the views of what the closure literal captured (rules L1/A3)
// (the type parameter only keeps generic parameters of the real struct in use, rule G4)
#[verifier::external_body] #[verifier::accept_recursive_types(T)] pub struct BoxedFn<T> { p: core::marker::PhantomData<T> }
impl<T> BoxedFn<T> { pub uninterp spec fn captured(&self) -> Own; pub uninterp spec fn code(&self) -> int; }
impl<T> OwnView for BoxedFn<T> { open spec fn own(&self) -> Own { self.captured() } }

// Box::new(e) (rule T1): the result type is inferred from the expected type
pub trait BoxNew<T>: Sized { spec fn boxed_ok(t: &T, r: &Self) -> bool; fn box_new_(t: T) -> (r: Self) ensures Self::boxed_ok(&t, &r); }
pub fn box_new<B: BoxNew<T>, T>(t: T) -> (r: B) ensures B::boxed_ok(&t, &r) { B::box_new_(t) }
// a closure literal passed by value (rule L3): what it captured and which literal it is
#[verifier::external_body] #[derive(Clone, Copy)] pub struct ClosureObj { x: u8 }   // (Copy: move-only use of FnOnce closures is already enforced by rustc on the real code)
// captured(): joined view of the captures; code(): which closure literal; cap0..cap2(): ghost ids of up to three captures the contracts name
impl ClosureObj { pub uninterp spec fn captured(&self) -> Own; pub uninterp spec fn code(&self) -> int; pub uninterp spec fn cap0(&self) -> int; pub uninterp spec fn cap1(&self) -> int; pub uninterp spec fn cap2(&self) -> int; pub uninterp spec fn flag(&self) -> bool; }
impl OwnView for ClosureObj { open spec fn own(&self) -> Own { self.captured() } }
impl<T> BoxedFn<T> { pub uninterp spec fn cap0(&self) -> int; pub uninterp spec fn cap1(&self) -> int; pub uninterp spec fn cap2(&self) -> int; pub uninterp spec fn flag(&self) -> bool; }
impl<T> BoxNew<ClosureObj> for BoxedFn<T> {
    open spec fn boxed_ok(t: &ClosureObj, r: &Self) -> bool { r.captured() == t.captured() && r.code() == t.code() && r.cap0() == t.cap0() && r.cap1() == t.cap1() && r.cap2() == t.cap2() && r.flag() == t.flag() }
    #[verifier::external_body] fn box_new_(t: ClosureObj) -> (r: Self) { unimplemented!() }
}

// Arc::new(closure) for the two submit closures of a channel (rule T1): the Arc'd object is that closure literal over that queue
pub trait ArcNew<T>: Sized { spec fn arc_ok(t: &T, r: &Self) -> bool; fn arc_new_(t: T) -> (r: Self) ensures Self::arc_ok(&t, &r); }
pub fn arc_new<B: ArcNew<T>, T>(t: T) -> (r: B) ensures B::arc_ok(&t, &r) { B::arc_new_(t) }
impl<A> ArcNew<ClosureObj> for ArcTx<A> {
    open spec fn arc_ok(t: &ClosureObj, r: &Self) -> bool { r.chan() == t.cap0() && r.code() == t.code() }
    #[verifier::external_body] fn arc_new_(t: ClosureObj) -> (r: Self) { unimplemented!() }
}
impl<A> ArcNew<ClosureObj> for ArcForceTx<A> {
    open spec fn arc_ok(t: &ClosureObj, r: &Self) -> bool { r.chan() == t.cap0() && r.code() == t.code() }
    #[verifier::external_body] fn arc_new_(t: ClosureObj) -> (r: Self) { unimplemented!() }
}
