// ===== prelude/rt_common.rs — what all three runtimes share: the take-once cell `Arc<async_lock::Mutex<Option<handle>>>` =====
#[verifier::external_body] #[verifier::accept_recursive_types(A)]
pub struct RtHandle<A> { p: core::marker::PhantomData<A> }       // runtime join handle / task of a future returning DynResult<A>
impl<A> RtHandle<A> { pub uninterp spec fn task(&self) -> int; }
#[verifier::external_body] #[verifier::accept_recursive_types(A)]
pub struct CellMutex<A> { p: core::marker::PhantomData<A> }
impl<A> CellMutex<A> { pub uninterp spec fn content(&self) -> Option<RtHandle<A>>; }
#[verifier::external_body]
pub fn mutex_new<A>(v: Option<RtHandle<A>>) -> (r: CellMutex<A>) ensures r.content() == v { unimplemented!() }
#[verifier::external_body] #[verifier::accept_recursive_types(A)]
pub struct ArcCell<A> { p: core::marker::PhantomData<A> }
impl<A> OwnView for ArcCell<A> { open spec fn own(&self) -> Own { own_none() } }
impl<A> ArcCell<A> {
    pub uninterp spec fn cell(&self) -> int;
    #[verifier::external_body] pub fn clone(&self) -> (r: Self) ensures r.cell() == self.cell() { unimplemented!() }
    // async lock / blocking lock of the cell's mutex. The mutex is private to the two closures of one ActorHandle; acquiring it
    // touches no shared state of the model (interference is observed at the operations on shared state, not here)
    #[verifier::external_body]
    pub fn lock(&self, Tracked(w): Tracked<&mut World>) -> (g: CellGuard<A>)
        requires old(w).cells.dom().contains(self.cell()),
        ensures g.cell() == self.cell(), same_world(old(w), final(w))
    { unimplemented!() }
    #[verifier::external_body]
    pub fn lock_blocking(&self, Tracked(w): Tracked<&mut World>) -> (g: CellGuard<A>)
        requires old(w).cells.dom().contains(self.cell()),
        ensures g.cell() == self.cell(), same_world(old(w), final(w))
    { unimplemented!() }
}
// Arc::new(Mutex::new(Some(handle))): a new cell holding the join handle of that task
#[verifier::external_body]
pub fn arc_new_cell<A>(m: CellMutex<A>, Tracked(w): Tracked<&mut World>) -> (r: ArcCell<A>)
    requires m.content() is Some,
    ensures !old(w).cells.dom().contains(r.cell()), *final(w) == (World { cells: old(w).cells.insert(r.cell(), true), ..*old(w) }), cell_task(r.cell()) == m.content()->0.task()
{ unimplemented!() }
#[verifier::external_body] #[verifier::accept_recursive_types(A)]
pub struct CellGuard<A> { p: core::marker::PhantomData<A> }
impl<A> CellGuard<A> {
    pub uninterp spec fn cell(&self) -> int;
    // Option::take through the guard
    #[verifier::external_body]
    pub fn take_cell(&mut self, Tracked(w): Tracked<&mut World>) -> (r: Option<RtHandle<A>>)
        requires old(w).cells.dom().contains(old(self).cell()),
        ensures r is Some <==> old(w).cells[old(self).cell()],
                r is Some ==> r->0.task() == cell_task(old(self).cell()),
                *final(w) == (World { cells: old(w).cells.insert(old(self).cell(), false), ..*old(w) }),
    { unimplemented!() }
}
// awaiting the runtime handle: the task's outcome, after others ran
pub open spec fn rt_joined(t: int, pre: &World, post: &World, graceful: bool, gid: int) -> bool {
    others_ran(pre, post) && (graceful <==> task_outcome(t) is Some) && (graceful ==> gid == task_outcome(t)->0)
}
// runtime spawn (tokio::spawn / async_std::task::spawn / smol::spawn) of an actor loop future or of a background future
pub trait RtSpawnable: Sized {
    type H;
    spec fn spawned(&self, h: &Self::H, pre: &World, post: &World) -> bool;
    fn rt_spawn_(self, Tracked(w): Tracked<&mut World>) -> (h: Self::H) ensures self.spawned(&h, old(w), final(w));
}
impl<A> RtSpawnable for LoopFuture<A> {
    type H = RtHandle<A>;
    open spec fn spawned(&self, h: &RtHandle<A>, pre: &World, post: &World) -> bool {
        &&& !pre.tasks.dom().contains(h.task()) && h.task() == slot_task(self.info().slot)
        &&& *post == World { tasks: pre.tasks.insert(h.task(), TaskSt::Held), task_info: pre.task_info.insert(h.task(), self.info()), ..*pre }
    }
    #[verifier::external_body] fn rt_spawn_(self, Tracked(w): Tracked<&mut World>) -> (h: RtHandle<A>) { unimplemented!() }
}
impl RtSpawnable for ClosureObj {
    type H = RtBg;
    open spec fn spawned(&self, h: &RtBg, pre: &World, post: &World) -> bool {
        &&& !pre.tasks.dom().contains(h.task()) && h.task() == bg_task(*self)
        &&& *post == World { tasks: pre.tasks.insert(h.task(), TaskSt::Held), ..*pre }
    }
    #[verifier::external_body] fn rt_spawn_(self, Tracked(w): Tracked<&mut World>) -> (h: RtBg) { unimplemented!() }
}
pub fn rt_spawn<F: RtSpawnable>(f: F, Tracked(w): Tracked<&mut World>) -> (h: F::H) ensures f.spawned(&h, old(w), final(w)) { f.rt_spawn_(Tracked(w)) }
#[verifier::external_body]
pub struct RtBg { x: u8 }
impl RtBg { pub uninterp spec fn task(&self) -> int; }
pub enum ActorError { AlreadyStopped, Other }
// the runtime's timer
#[verifier::external_body]
pub fn rt_sleep(d: u64, Tracked(w): Tracked<&mut World>) ensures emits(old(w), final(w), Ev::Slept { d: d as int }) { unimplemented!() }
// Arc::downgrade of the cell's Arc / Weak::upgrade (a change may hold the cell weakly): upgrading yields the same cell, or nothing once
// every strong Arc of it is gone (the ActorHandle's closures are the only strong holders)
#[verifier::external_body] #[verifier::accept_recursive_types(A)]
pub struct WeakCell<A> { p: core::marker::PhantomData<A> }
impl<A> OwnView for WeakCell<A> { open spec fn own(&self) -> Own { own_none() } }
impl<A> WeakCell<A> {
    pub uninterp spec fn cell(&self) -> int;
    #[verifier::external_body] pub fn clone(&self) -> (r: Self) ensures r.cell() == self.cell() { unimplemented!() }
    #[verifier::external_body] pub fn upgrade(&self) -> (r: Option<ArcCell<A>>) ensures r is Some ==> r->0.cell() == self.cell() { unimplemented!() }
}
impl<A> ArcCell<A> { #[verifier::external_body] pub fn downgrade(&self) -> (r: WeakCell<A>) ensures r.cell() == self.cell() { unimplemented!() } }
