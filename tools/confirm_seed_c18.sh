#!/bin/bash
# usage: tools/confirm_seed_c18.sh <agent-out-dir> <seed-name> <feature>
# C18 seeds need a non-default runtime: the demonstration is a tiny cargo project depending on the scratch worktree by path.
src=$1; name=$2; feat=$3
wt=/tmp/hannibal-seedconf/$name; export CARGO_TARGET_DIR=/tmp/hannibal-seedconf/target18
rm -rf $wt /tmp/hannibal-seedconf/demo-$name; mkdir -p /tmp/hannibal-seedconf; git -C /repo worktree add --detach $wt HEAD >/dev/null 2>&1 || { echo "worktree failed"; exit 2; }
dd=/tmp/hannibal-seedconf/demo-$name; mkdir -p $dd; cp $src/Cargo.toml $src/Cargo.lock $src/demo.rs $dd/; sed -i -E "s|/tmp/seed[0-9]*/C18/wt|$wt|" $dd/Cargo.toml
cd $dd; timeout 1200 cargo run --offline >/dev/null 2>&1; clean=$?
git -C $wt apply $src/patch.diff || { echo "patch does not apply"; git -C /repo worktree remove --force $wt; exit 2; }
timeout 1200 cargo run --offline >/dev/null 2>&1; patched=$?
suite=$(cd $wt && CARGO_TARGET_DIR=/tmp/hannibal-seedconf/target timeout 1200 cargo test --workspace --no-fail-fast --offline --lib 2>&1 | grep -E "^test result" | head -1)
echo "$name clean exit=$clean patched exit=$patched suite(lib, default features) with patch: $suite"
if [ $clean = 0 ] && [ $patched = 1 ] && echo "$suite" | grep -q "ok. 41 passed"; then
  d=/verif/seeded/$name; mkdir -p $d; cp $src/patch.diff $src/demo.rs $src/Cargo.toml $src/Cargo.lock $d/; [ -f $src/demo.md ] && cp $src/demo.md $d/; [ -f $src/notes.md ] && cp $src/notes.md $d/
  python3 - "$d" "$name" "$feat" "$clean" "$patched" "$suite" <<'PY'
import json,sys
d,name,feat,clean,patched,suite=sys.argv[1:7]
json.dump({"seed":name,"breaks_property":"C18","written_by":"independent sub-agent given only the property text and a scratch worktree of /repo","base_commit":"1c81883","demonstration":"demo.rs + Cargo.toml (separate cargo project depending on the patched tree by path, runtime feature "+feat+"; cargo run --offline: exit 0 pass, 1 fail)","confirmed":{"demo_on_clean_tree_exit":int(clean),"demo_with_patch_exit":int(patched),"existing_lib_suite_with_patch":suite},"needs_to_manifest":"see notes.md"},open(d+"/meta.json","w"),indent=1)
PY
  echo "$name CONFIRMED -> /verif/seeded/$name"
else echo "$name NOT CONFIRMED"; fi
cd /; rm -rf $dd; git -C /repo worktree remove --force $wt
