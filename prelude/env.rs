// ===== prelude/env.rs — stand-ins U-ENV needs: Context (opaque here, verified in U-CTX), mailbox receiver, payloads =====
// Context is the real struct (extracted below); these are the types of its fields this unit does not look into
#[verifier::external_body] #[verifier::accept_recursive_types(K)] #[verifier::accept_recursive_types(V)] pub struct VMap<K, V> { p: core::marker::PhantomData<(K, V)> }
impl<K, V> OwnView for VMap<K, V> { open spec fn own(&self) -> Own { own_none() } }
impl<T> OwnView for Vec<T> { open spec fn own(&self) -> Own { own_none() } }
#[verifier::external_body] pub struct AbortHandleV { x: u8 }
#[verifier::external_body] pub struct TypeIdV { x: u8 }
#[verifier::external_body] pub struct AnyBoxObj { x: u8 }
impl<A> PayloadStream<A> { }
impl<A> OwnView for PayloadStream<A> { open spec fn own(&self) -> Own { own_none() } }
impl<T> OwnView for OsSender<T> { open spec fn own(&self) -> Own { own_none() } }
// an address of the actor itself (only to give a view to a loop future that wrongly captures one)
#[verifier::external_body] #[verifier::accept_recursive_types(A)] pub struct Addr<A> { p: core::marker::PhantomData<A> }
impl<A> Addr<A> { pub uninterp spec fn chan(&self) -> int; }
impl<A> OwnView for Addr<A> { open spec fn own(&self) -> Own { Own { none: false, chan: self.chan(), s_tx: true, s_force: true, w_tx: false, w_force: false, mixed: false } } }
pub broadcast axiom fn own_of_actor<A: Actor>(a: &A) ensures #[trigger] own_of(a) == own_none();      // client contract: the actor value does not store a strong handle to itself
pub broadcast axiom fn own_of_stream<S: VStream>(s: &S) ensures #[trigger] own_of(s) == own_none();   // client contract: the attached stream holds no strong handle to the actor
// user callbacks may use the context (register timers and children) but cannot re-point its links
// nor drop a child: the public API (add_child / register_child, proved append-only in U-CTX) is the only way client code reaches the table
pub open spec fn ctx_stable<A>(pre: &Context<A>, post: &Context<A>) -> bool {
    post.id == pre.id && post.weak_tx == pre.weak_tx && post.weak_force_tx == pre.weak_force_tx && kids_grow(pre.children@, post.children@)
}
// the child table (type id -> the children registered under it, in registration order); children are strong Senders
impl VMap<TypeIdV, Vec<AnyBoxObj>> {
    pub uninterp spec fn view(&self) -> Map<int, Seq<int>>;
    #[verifier::external_body] pub fn clear(&mut self) ensures final(self)@ == Map::<int, Seq<int>>::empty() { unimplemented!() }
    #[verifier::external_body] pub fn remove(&mut self, k: &TypeIdV) -> (r: Option<Vec<AnyBoxObj>>) ensures final(self)@ == old(self)@.remove(k.id()) { unimplemented!() }
}
impl TypeIdV { pub uninterp spec fn id(&self) -> int; }
// every child that was registered is still registered, under the same type, in the same position
pub open spec fn kids_grow(pre: Map<int, Seq<int>>, post: Map<int, Seq<int>>) -> bool {
    forall|k: int| #![trigger pre.dom().contains(k)] #![trigger post.dom().contains(k)] pre.dom().contains(k) ==> post.dom().contains(k) && pre[k].is_prefix_of(post[k])
}
pub broadcast proof fn kids_grow_trans(a: Map<int, Seq<int>>, b: Map<int, Seq<int>>, c: Map<int, Seq<int>>)
    requires #[trigger] kids_grow(a, b), #[trigger] kids_grow(b, c) ensures kids_grow(a, c)
{
    assert forall|k: int| a.dom().contains(k) implies c.dom().contains(k) && a[k].is_prefix_of(c[k]) by {
        assert(b.dom().contains(k)); assert(a[k].is_prefix_of(b[k])); assert(b[k].is_prefix_of(c[k]));
    }
}

// payload.rs: `TaskFn<A>` is a boxed `for<'a> FnOnce(&'a mut A, &'a mut Context<A>) -> TaskFuture<'a>`; the unit's type rule
// only matches that exact shape (FnOnce: at most once; `&'a mut A` held by the returned future: handlers cannot overlap).
#[verifier::external_body] #[verifier::accept_recursive_types(A)]
pub struct TaskFnObj<A> { p: core::marker::PhantomData<A> }
impl<A> TaskFnObj<A> { pub uninterp spec fn pid(&self) -> int; }
#[verifier::external_body]
pub struct TaskFuture<'a> { p: core::marker::PhantomData<&'a mut ()> }
impl<'a> TaskFuture<'a> { pub uninterp spec fn pid(&self) -> int; pub uninterp spec fn gid(&self) -> int; pub uninterp spec fn needs(&self) -> nat; }
impl<'a> VFuture for TaskFuture<'a> {
    type Output = ();
    open spec fn pre(&self, w: &World) -> bool { allowed(w.lc, Ev::RunDone { pid: self.pid(), gid: self.gid() }) }
    open spec fn done(&self, w0: &World, w1: &World, out: &()) -> bool { emits(w0, w1, Ev::RunDone { pid: self.pid(), gid: self.gid() }) }
    open spec fn dropped(&self, w0: &World, w1: &World) -> bool { emits(w0, w1, Ev::RunAbandoned { pid: self.pid() }) }
    open spec fn ready_at(&self) -> nat { self.needs() }
    #[verifier::external_body]
    fn await_(self, Tracked(w): Tracked<&mut World>) -> (r: ()) { unimplemented!() }
}
// calling the boxed payload creates the handler future; it borrows the actor and the context until it completes or is dropped
#[verifier::external_body]
pub fn call_boxed<'a, A: Actor>(f: TaskFnObj<A>, actor: &'a mut A, ctx: &'a mut Context<A>) -> (r: TaskFuture<'a>)
    ensures r.pid() == f.pid(), r.gid() == old(actor).gid(), final(actor).gid() == old(actor).gid(), ctx_stable(old(ctx), final(ctx))
{ unimplemented!() }

pub open spec fn deq_ev<A>(r: Option<Payload<A>>) -> Ev {
    match r { Some(Payload::Task(f)) => Ev::DeqTask { pid: f.pid() }, Some(Payload::Stop) => Ev::DeqStop, Some(Payload::Restart) => Ev::DeqRestart, None => Ev::DeqNone }
}
// channel.rs: `PayloadStream<A>` = PollFn over the mpsc receiver; `next()` dequeues one payload (None: closed and empty)
#[verifier::external_body] #[verifier::accept_recursive_types(A)]
pub struct PayloadStream<A> { p: core::marker::PhantomData<A> }
#[verifier::external_body] #[verifier::accept_recursive_types(A)]
pub struct NextFut<'a, A> { p: core::marker::PhantomData<&'a mut A> }
impl<'a, A> VFuture for NextFut<'a, A> {
    type Output = Option<Payload<A>>;
    open spec fn pre(&self, w: &World) -> bool { allowed(w.lc, Ev::DeqNone) }
    open spec fn done(&self, w0: &World, w1: &World, out: &Option<Payload<A>>) -> bool { emits(w0, w1, deq_ev(*out)) }
    open spec fn dropped(&self, w0: &World, w1: &World) -> bool { same_world(w0, w1) }      // cancel-safe: a dropped `next()` took nothing
    uninterp spec fn ready_at(&self) -> nat;
    #[verifier::external_body]
    fn await_(self, Tracked(w): Tracked<&mut World>) -> (r: Self::Output) { unimplemented!() }
}
impl<A> PayloadStream<A> {
    #[verifier::external_body]
    pub fn next(&mut self, Tracked(w): Tracked<&mut World>) -> (r: Option<Payload<A>>)
        requires allowed(old(w).lc, Ev::DeqNone),                                                                             // @ob lc.dequeue-allowed C01,C02,C03,C04
        ensures emits(old(w), final(w), deq_ev(r))
    { unimplemented!() }
    #[verifier::external_body]
    pub fn next__fut<'a>(&'a mut self) -> (r: NextFut<'a, A>) { unimplemented!() }
}
// an attached stream
pub trait VStream: Sized { type Item; }
#[verifier::external_body] #[verifier::accept_recursive_types(S)]
pub struct StreamNextFut<'a, S> { p: core::marker::PhantomData<&'a mut S> }
pub open spec fn stream_ev<T>(r: Option<T>) -> Ev { match r { Some(t) => Ev::StreamItem { k: item_id(&t) }, None => Ev::StreamEnd } }
impl<'a, S: VStream> VFuture for StreamNextFut<'a, S> {
    type Output = Option<S::Item>;
    open spec fn pre(&self, w: &World) -> bool { allowed(w.lc, Ev::StreamEnd) }
    open spec fn done(&self, w0: &World, w1: &World, out: &Option<S::Item>) -> bool { emits(w0, w1, stream_ev(*out)) }
    open spec fn dropped(&self, w0: &World, w1: &World) -> bool { same_world(w0, w1) }      // cancel-safe: a dropped `next()` took nothing
    uninterp spec fn ready_at(&self) -> nat;
    #[verifier::external_body]
    fn await_(self, Tracked(w): Tracked<&mut World>) -> (r: Self::Output) { unimplemented!() }
}
pub trait VStreamExt: VStream { fn next__fut<'a>(&'a mut self) -> StreamNextFut<'a, Self>; }
impl<S: VStream> VStreamExt for S { #[verifier::external_body] fn next__fut<'a>(&'a mut self) -> StreamNextFut<'a, Self> { unimplemented!() } }

// futures oneshot sender (the only one in this unit is the stop notifier's)
#[verifier::external_body] #[verifier::accept_recursive_types(T)]
pub struct OsSender<T> { p: core::marker::PhantomData<T> }
impl<T> OsSender<T> {
    pub uninterp spec fn slot(&self) -> int;
    // sending on the `running` slot IS the termination announcement (C04): every awaiter of any Addr clone resolves Ok from here on
    #[verifier::external_body]
    pub fn send(self, t: T, Tracked(w): Tracked<&mut World>) -> (r: Result<(), T>)
        requires self.slot() == old(w).lc.run_slot ==> allowed(old(w).lc, Ev::Notify),                                        // @ob lc.notify-allowed C04,C02,C06,C17
        ensures self.slot() == old(w).lc.run_slot ==> emits(old(w), final(w), Ev::Notify),
                self.slot() != old(w).lc.run_slot ==> same_world(old(w), final(w)),
    { unimplemented!() }
}
// thiserror-generated conversion used by `ActorError::Timeout.into()`
pub enum ActorError { Timeout, Other }
impl From<ActorError> for DynErr { #[verifier::external_body] fn from(e: ActorError) -> (r: DynErr) { unimplemented!() } }
// `Box<dyn Error + Send + Sync>: From<String>` / `From<&str>` (an error made from a message)
impl From<String> for DynErr { #[verifier::external_body] fn from(e: String) -> (r: DynErr) { unimplemented!() } }
impl<'a> From<&'a str> for DynErr { #[verifier::external_body] fn from(e: &'a str) -> (r: DynErr) { unimplemented!() } }

// restart_strategy.rs: the trait every strategy is proved against (C07). `kind()` is the specification-side name of
// what the statement promises for that strategy; the implementations' bodies are extracted from /repo.
pub trait RestartStrategy<A: Actor> {
    spec fn kind() -> Kind;
    fn refresh(actor: A, ctx: &mut Context<A>, Tracked(w): Tracked<&mut World>) -> (r: DynResult<A>)
        requires old(w).lc.ph is Running, old(w).lc.restart_pending, old(w).lc.pending is None, old(w).lc.gid == actor.gid(),   // @ob refresh.pre C07,C01,C11,C17,C03
        ensures
            ctx_stable(old(ctx), final(ctx)),                                                                                   // @ob refresh.a-restart-releases-no-child-and-keeps-the-links C16,C15,C05,C07,C09
            Self::kind() is Ignore ==> r is Ok && r->Ok_0.gid() == actor.gid() && *final(w) == (World { lc: Lc { restart_pending: false, ..old(w).lc }, ..*old(w) }),   // @ob refresh.nonrestartable-ignores C07
            r is Ok ==> !final(w).lc.restart_pending,                                                                             // @ob refresh.the-request-is-taken-note-of C07
            !(Self::kind() is Ignore) ==> (r is Ok ==> final(w).lc.ph is Running && final(w).lc.pending is None && final(w).lc.gid == r->Ok_0.gid()
                    && final(w).lc.stream == old(w).lc.stream && final(w).lc.run_slot == old(w).lc.run_slot && final(w).lc.inc == old(w).lc.inc + 1 && final(w).cfg_timeout == old(w).cfg_timeout),   // @ob refresh.new-incarnation-started C07,C03,C17,C02,C04,C06
            !(Self::kind() is Ignore) ==> (r is Ok ==> final(w).lc.timers_live),                                                   // @ob refresh.timers-of-the-new-incarnation-are-left-alone C15,C10,C07
            !(Self::kind() is Ignore) ==> (r is Err ==> final(w).lc.ph is Failed),                                                // @ob refresh.start-error-fails C07,C03,C17,C06,C02,C04
            Self::kind() is Same ==> (r is Ok ==> r->Ok_0.gid() == actor.gid() && final(w).lc.recreated == old(w).lc.recreated),  // @ob refresh.default-keeps-value C07,C02,C04,C17,C06
            Self::kind() is Fresh ==> (r is Ok ==> final(w).lc.recreated == old(w).lc.recreated + 1),                            // @ob refresh.recreate-uses-default C07
    ;
}
// an explicit `drop(self.payload_stream)` inside the loop future (rule D5x): from then on the queue is closed - senders waiting for space
// are released and told Ok (futures' poll_flush treats a closed channel as flushed), and any later submission (a second stop, a halt, a
// consume) is refused. The loop future normally keeps the receiver until it ends, i.e. until `stopped()` has returned (or it fails).
#[verifier::external_body]
pub fn drop_mailbox<A>(s: PayloadStream<A>, Tracked(w): Tracked<&mut World>)
    requires old(w).lc.ph is Stopped || old(w).lc.ph is Done || old(w).lc.ph is Failed,   // @ob loop.the-mailbox-stays-open-until-stopped-has-returned C04,C12,C17,C05,C02,C13
    ensures same_world(old(w), final(w))
{ unimplemented!() }
// context.rs Context::weak_address / Context::address as seen from the loops (proved in unit ctx): whether they yield anything depends on
// whether strong handles still exist, which the loop cannot know; they touch nothing
#[verifier::external_body] #[verifier::accept_recursive_types(A)] pub struct WeakAddrV<A> { p: core::marker::PhantomData<A> }
impl<A> Context<A> {
    #[verifier::external_body] pub fn weak_address(&self) -> (r: Option<WeakAddrV<A>>) { unimplemented!() }
    #[verifier::external_body] pub fn address(&self) -> (r: Option<Addr<A>>) { unimplemented!() }
}
// ghost acknowledgement: the strategy has been handed the dequeued restart request (a strategy that ignores restarts does nothing else).
// `restart_pending` is set by dequeuing a restart request and must be cleared before the loop dequeues again: a loop arm that drops the
// request without consulting the strategy leaves it set
#[verifier::external_body]
pub proof fn ack_restart_request(tracked w: &mut World)
    requires old(w).lc.restart_pending
    ensures *final(w) == (World { lc: Lc { restart_pending: false, ..old(w).lc }, ..*old(w) })
{ unimplemented!() }
