// replay probe for C15: with only a Caller alive, weak handles must upgrade, timers must keep firing, ctx.stop() must succeed
use hannibal::prelude::*;
use std::{sync::{Arc, atomic::{AtomicUsize, Ordering}}, time::Duration};
#[derive(Default)]
struct A1 { ticks: Arc<AtomicUsize> }
impl Actor for A1 {
    async fn started(&mut self, ctx: &mut Context<Self>) -> DynResult<()> { ctx.interval(Tick, Duration::from_millis(20)); Ok(()) }
}
#[derive(Clone)] struct Tick; impl Message for Tick { type Response = (); }
impl Handler<Tick> for A1 { async fn handle(&mut self, _c: &mut Context<Self>, _m: Tick) { self.ticks.fetch_add(1, Ordering::SeqCst); } }
struct SelfStop; impl Message for SelfStop { type Response = bool; }
impl Handler<SelfStop> for A1 { async fn handle(&mut self, c: &mut Context<Self>, _m: SelfStop) -> bool { c.stop().is_ok() } }
#[tokio::main]
async fn main() {
    let ticks = Arc::new(AtomicUsize::new(0));
    let a = A1 { ticks: ticks.clone() }.spawn();
    let weak = a.downgrade();
    let caller = a.caller::<SelfStop>();
    drop(a);
    tokio::time::sleep(Duration::from_millis(100)).await;
    let t0 = ticks.load(Ordering::SeqCst);
    tokio::time::sleep(Duration::from_millis(100)).await;
    let t1 = ticks.load(Ordering::SeqCst);
    let up = weak.upgrade().is_some();
    let stop_ok = caller.call(SelfStop).await;
    println!("caller only: weak.upgrade().is_some()={up} ticks advancing={} ctx.stop() ok={stop_ok:?}", t1 > t0);
    if !up || t1 <= t0 || stop_ok != Ok(true) { println!("REPRODUCED a Caller alone does not keep the actor fully functional"); } else { println!("not reproduced"); }
}
