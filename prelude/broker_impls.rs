// ===== prelude/broker_impls.rs — the broker is an ordinary actor and service (trait plumbing for the extracted struct) =====
impl<T: Message<Response = ()>> Actor for Broker<T> { uninterp spec fn gid(&self) -> int; }
impl<T: Message<Response = ()>> Default for Broker<T> { #[verifier::external_body] fn default() -> Self { unimplemented!() } }
impl<T: Message<Response = ()>> Service for Broker<T> {
    #[verifier::external_body] fn from_registry(Tracked(w): Tracked<&mut World>) -> (r: Addr<Self>) { unimplemented!() }
    #[verifier::external_body] fn try_from_registry(Tracked(w): Tracked<&mut World>) -> (r: Option<Addr<Self>>) { unimplemented!() }
    #[verifier::external_body] fn already_running(Tracked(w): Tracked<&mut World>) -> (r: Option<bool>) { unimplemented!() }
}
