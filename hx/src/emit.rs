// text emitter with a generated-line -> /repo file:line map
use proc_macro2::{Delimiter, Spacing, TokenStream, TokenTree};
use quote::ToTokens;
use std::collections::BTreeMap;

pub struct FnInfo { pub name: String, pub file: String, pub src_line: usize, pub gen_start: usize, pub gen_end: usize, pub kind: String, pub path: String, pub loops: usize, pub captured: Vec<String> }

pub struct Emitter {
    lines: Vec<String>,
    cur: String,
    cur_src: Option<usize>,
    pub linemap: Vec<(usize, String, usize)>, // generated line (1-based), file, source line
    pub functions: Vec<FnInfo>,
    pub probes: Vec<(usize, String, String)>,
    pub prooftexts: Vec<String>,
    pub next_probe: usize,
    file: String,
    pub file_ranges: BTreeMap<String, (usize, usize)>,   // byte range of each /repo file in proc-macro2's source map: only spans inside it carry /repo line numbers
    cur_range: (usize, usize),
}

const NO_SPACE_AFTER_KW: &[&str] = &["if", "match", "while", "in", "return", "for", "let", "else", "loop", "move", "mut", "ref", "as", "break", "continue", "dyn", "impl", "where", "unsafe", "async"];

impl Emitter {
    pub fn new() -> Self { Emitter { lines: vec![], cur: String::new(), cur_src: None, linemap: vec![], functions: vec![], probes: vec![], prooftexts: vec![], next_probe: 0, file: String::new(), file_ranges: BTreeMap::new(), cur_range: (0, usize::MAX) } }
    pub fn line(&self) -> usize { self.lines.len() + 1 }
    pub fn text(&self) -> String { let mut s = self.lines.join("\n"); s.push('\n'); s }
    fn flush(&mut self) {
        let mut l = std::mem::take(&mut self.cur);
        if l.contains("hx_other__") { l = l.replace("hx_other__", ""); }   // rule N2: an unrelated method that shares its name with a contracted function
        // `for x in __hx_iter(e)` -> `for x in hx_it: e`
        if let Some(i) = l.find(" in __hx_iter(") {
            let head = l[..i].to_string(); let rest = l[i + " in __hx_iter(".len()..].to_string();
            let (expr, tail) = if let Some(stripped) = rest.trim_end().strip_suffix(") {") { (stripped.to_string(), " {".to_string()) } else if let Some(stripped) = rest.trim_end().strip_suffix(')') { (stripped.to_string(), String::new()) } else { (rest.clone(), String::new()) };
            l = format!("{} in hx_it: {}{}", head, expr, tail);
        }
        let n = self.lines.len() + 1;
        if let Some(s) = self.cur_src.take() { self.linemap.push((n, self.file.clone(), s)); }
        self.lines.push(l.trim_end().to_string());
    }
    /// a constructor call site was printed with a guess of how many `_` holes the constructor's generic list needs; once the constructor
    /// itself is emitted the number is known: fix the call sites already printed (`X::< A, M, _, _ >(` keeps its leading names)
    pub fn fix_ctor_holes(&mut self, ctor: &str, holes: usize) {
        let pat = format!("{}::<", ctor);
        for l in self.lines.iter_mut() {
            let mut from = 0usize;
            while let Some(p) = l[from..].find(&pat) {
                let st = from + p + pat.len();
                let Some(e) = l[st..].find(">(") else { break; };
                let inner = l[st..st + e].to_string();
                let names: Vec<String> = inner.split(',').map(|x| x.trim().to_string()).filter(|x| !x.is_empty() && x != "_").collect();
                let mut parts = names.clone(); for _ in 0..holes { parts.push("_".to_string()); }
                let newinner = format!(" {} ", parts.join(", "));
                l.replace_range(st..st + e, &newinner);
                from = st + newinner.len();
            }
        }
    }
    pub fn raw(&mut self, s: &str) { for l in s.split('\n') { self.cur.push_str(l); self.flush(); } }
    pub fn comment(&mut self, s: &str) { self.raw(s); }
    pub fn raw_block(&mut self, s: &str, indent: &str) { for l in s.trim_end_matches('\n').split('\n') { self.cur.push_str(indent); self.cur.push_str(l); self.flush(); } }

    /// print a function body; loop bodies that start with the marker `__hx_loop(k);` get the loop spec before `{`
    pub fn body(&mut self, block: &syn::Block, indent: usize, file: &str, proof_entry: Option<&str>, loopspecs: &BTreeMap<usize, (String, Option<String>, Option<String>)>) {
        self.file = file.to_string();
        self.cur_range = self.file_ranges.get(file).cloned().unwrap_or((0, usize::MAX));
        let ts = block.to_token_stream();
        // the block prints as one brace group
        let mut p = Printer { em: self, indent, loopspecs, pending_nl: false, prev: Prev::Start, prevprev_joint_colon: false };
        let toks: Vec<TokenTree> = ts.into_iter().collect();
        if let [TokenTree::Group(g)] = toks.as_slice() {
            p.em.cur.push_str(&"    ".repeat(indent)); p.em.cur.push('{'); p.em.flush();
            if let Some(pe) = proof_entry { let ind = "    ".repeat(indent + 1); p.em.raw_block(pe, &ind); }
            p.indent = indent + 1; p.start_line();
            p.stream(g.stream(), Delimiter::Brace);
            if !p.em.cur.trim().is_empty() { p.em.flush(); } else { p.em.cur.clear(); }
            p.em.cur.push_str(&"    ".repeat(indent)); p.em.cur.push('}'); p.em.flush();
        }
    }

    pub fn map_json(&self, cx: &crate::Ctx) -> String {
        fn esc(s: &str) -> String { s.replace('\\', "\\\\").replace('"', "\\\"") }
        let mut o = String::from("{\n \"functions\": [\n");
        for (i, f) in self.functions.iter().enumerate() {
            o.push_str(&format!("  {{\"name\": \"{}\", \"file\": \"{}\", \"line\": {}, \"gen_start\": {}, \"gen_end\": {}, \"kind\": \"{}\", \"path\": \"{}\", \"loops\": {}, \"captured\": [{}]}}{}\n",
                esc(&f.name), esc(&f.file), f.src_line, f.gen_start, f.gen_end, esc(&f.kind), esc(&f.path), f.loops, f.captured.iter().map(|c| format!("\"{}\"", esc(c))).collect::<Vec<_>>().join(", "), if i + 1 < self.functions.len() { "," } else { "" }));
        }
        o.push_str(" ],\n \"lines\": [");
        o.push_str(&self.linemap.iter().map(|(g, f, s)| format!("[{}, \"{}\", {}]", g, esc(f), s)).collect::<Vec<_>>().join(", "));
        o.push_str("],\n \"probes\": [");
        o.push_str(&self.probes.iter().map(|(id, f, w)| format!("{{\"id\": {}, \"fn\": \"{}\", \"where\": \"{}\"}}", id, esc(f), esc(w))).collect::<Vec<_>>().join(", "));
        o.push_str("],\n \"rules\": {");
        o.push_str(&cx.rules.iter().map(|(k, v)| format!("\"{}\": {}", esc(k), v)).collect::<Vec<_>>().join(", "));
        o.push_str("},\n \"uncontracted_loops\": [");
        o.push_str(&cx.uncontracted.iter().map(|f| format!("\"{}\"", esc(f))).collect::<Vec<_>>().join(", "));
        o.push_str("],\n \"dropped\": [");
        o.push_str(&cx.dropped.iter().map(|f| format!("\"{}\"", esc(f))).collect::<Vec<_>>().join(", "));
        o.push_str("]\n}\n");
        o
    }
}

#[derive(Clone, PartialEq)]
enum Prev { Start, Ident(String), Punct(char, bool), Lit, Close(Delimiter), Open }

struct Printer<'a> { em: &'a mut Emitter, indent: usize, loopspecs: &'a BTreeMap<usize, (String, Option<String>, Option<String>)>, pending_nl: bool, prev: Prev, prevprev_joint_colon: bool }

fn marker(g: &proc_macro2::Group, name: &str) -> Option<(usize, TokenStream)> {
    // `{ name ( k ) ; rest.. }`
    let toks: Vec<TokenTree> = g.stream().into_iter().collect();
    if toks.len() >= 3 {
        if let (TokenTree::Ident(i), TokenTree::Group(a), TokenTree::Punct(p)) = (&toks[0], &toks[1], &toks[2]) {
            if i == name && p.as_char() == ';' {
                if let Ok(k) = a.stream().to_string().trim().parse::<usize>() { return Some((k, toks[3..].iter().cloned().collect())); }
            }
        }
    }
    None
}

impl<'a> Printer<'a> {
    fn start_line(&mut self) { self.em.cur.clear(); self.em.cur.push_str(&"    ".repeat(self.indent)); self.prev = Prev::Start; }
    fn newline(&mut self) { self.em.flush(); self.start_line(); }
    fn note_span(&mut self, sp: proc_macro2::Span) {
        if self.em.cur_src.is_none() { if let Some((a, b)) = crate::util::global_range(sp) { let l = sp.start().line; if a != b && l > 0 && a >= self.em.cur_range.0 && b <= self.em.cur_range.1 { self.em.cur_src = Some(l); } } }
    }
    fn space_before(&self, cur: &TokenTree) -> bool {
        match (&self.prev, cur) {
            (Prev::Start, _) | (Prev::Open, _) => false,
            (Prev::Punct(_, true), _) => false,
            (Prev::Punct(':', false), _) if self.prevprev_joint_colon => false,
            (Prev::Punct('.', _), _) => false,
            (Prev::Punct('&', _), _) | (Prev::Punct('!', _), TokenTree::Group(_)) | (Prev::Punct('#', _), _) => false,
            (_, TokenTree::Punct(p)) if matches!(p.as_char(), ',' | ';' | '?' | '.') => false,
            (Prev::Ident(_), TokenTree::Punct(p)) if p.as_char() == ':' || p.as_char() == '!' => false,
            (Prev::Ident(k), TokenTree::Group(g)) if matches!(g.delimiter(), Delimiter::Parenthesis | Delimiter::Bracket) => NO_SPACE_AFTER_KW.contains(&k.as_str()),
            (Prev::Close(_), TokenTree::Group(g)) if matches!(g.delimiter(), Delimiter::Parenthesis | Delimiter::Bracket) => false,
            (Prev::Punct('>', _), TokenTree::Group(g)) if g.delimiter() == Delimiter::Parenthesis => false,
            _ => true,
        }
    }
    fn stream(&mut self, ts: TokenStream, ctx: Delimiter) {
        let toks: Vec<TokenTree> = ts.into_iter().collect();
        let n = toks.len();
        let mut i = 0;
        while i < n {
            let tt = &toks[i];
            if self.pending_nl {
                self.pending_nl = false;
                let cont = match tt { TokenTree::Ident(id) => id == "else", TokenTree::Punct(p) => matches!(p.as_char(), ',' | ';' | '.' | '?'), _ => false };
                if !cont { self.newline(); }
            }
            match tt {
                TokenTree::Group(g) => {
                    match g.delimiter() {
                        Delimiter::Brace => {
                            // loop body marker?
                            let (spec, inner) = match marker(g, "__hx_loop") { Some((k, rest)) => (self.loopspecs.get(&k).cloned(), rest), None => (None, g.stream()) };
                            if let Some((inv, _, _)) = &spec {
                                if !inv.trim().is_empty() { self.em.flush(); let ind = "    ".repeat(self.indent + 1); self.em.raw_block(inv, &ind); self.start_line(); self.em.cur.push('{'); }
                                else { self.em.cur.push_str(" {"); }
                            } else {
                                if self.space_before(tt) { self.em.cur.push(' '); }
                                self.em.cur.push('{');
                            }
                            if inner.is_empty() { self.em.cur.push('}'); self.prev = Prev::Close(Delimiter::Brace); self.pending_nl = ctx == Delimiter::Brace; i += 1; continue; }
                            self.indent += 1; self.newline();
                            if let Some((_, Some(ps), _)) = &spec { let ind = "    ".repeat(self.indent); self.em.cur.clear(); self.em.raw_block(ps, &ind); self.start_line(); }
                            self.stream(inner, Delimiter::Brace);
                            self.pending_nl = false;
                            if let Some((_, _, Some(pe))) = &spec { if !self.em.cur.trim().is_empty() { self.em.flush(); } let ind = "    ".repeat(self.indent); self.em.cur.clear(); self.em.raw_block(pe, &ind); self.em.cur.clear(); }
                            self.indent -= 1;
                            if !self.em.cur.trim().is_empty() { self.em.flush(); }
                            self.start_line(); self.em.cur.push('}');
                            self.prev = Prev::Close(Delimiter::Brace);
                            self.pending_nl = ctx == Delimiter::Brace;
                        }
                        d => {
                            let (o, c) = match d { Delimiter::Parenthesis => ("(", ")"), Delimiter::Bracket => ("[", "]"), _ => ("", "") };
                            if self.space_before(tt) { self.em.cur.push(' '); }
                            self.note_span(g.span_open());
                            self.em.cur.push_str(o); self.prev = Prev::Open;
                            self.stream(g.stream(), d);
                            self.pending_nl = false;
                            self.em.cur.push_str(c); self.prev = Prev::Close(d);
                        }
                    }
                }
                TokenTree::Ident(id) => {
                    let s = id.to_string();
                    // probe marker statement: `__hx_probe ( k ) ;`
                    // proof text inserted before a statement (`@proof F before <callee>`): `__hx_prooftext ( k ) ;`
                    if s == "__hx_prooftext" {
                        if let (Some(TokenTree::Group(a)), Some(TokenTree::Punct(_))) = (toks.get(i + 1), toks.get(i + 2)) {
                            let k: usize = a.stream().to_string().trim().parse().unwrap_or(0);
                            let txt = self.em.prooftexts.get(k).cloned().unwrap_or_default();
                            if !self.em.cur.trim().is_empty() { self.em.flush(); }
                            let ind = "    ".repeat(self.indent); self.em.cur.clear(); self.em.raw_block(&txt, &ind); self.start_line();
                            self.pending_nl = false; i += 3; continue;
                        }
                    }
                    if s == "__hx_probe" {
                        if let (Some(TokenTree::Group(a)), Some(TokenTree::Punct(_))) = (toks.get(i + 1), toks.get(i + 2)) {
                            self.em.cur.push_str(&format!("proof {{ if hx_probe({}) {{ assert(false); }} }} // @probe {}", a.stream().to_string().trim(), a.stream().to_string().trim()));
                            self.newline(); i += 3; continue;
                        }
                    }
                    if self.space_before(tt) { self.em.cur.push(' '); }
                    self.note_span(id.span());
                    self.em.cur.push_str(&s);
                    self.prev = Prev::Ident(s);
                }
                TokenTree::Punct(p) => {
                    if self.space_before(tt) { self.em.cur.push(' '); }
                    self.note_span(p.span());
                    self.em.cur.push(p.as_char());
                    let was_joint_colon = matches!(self.prev, Prev::Punct(':', true));
                    self.prevprev_joint_colon = was_joint_colon && p.as_char() == ':';
                    self.prev = Prev::Punct(p.as_char(), p.spacing() == Spacing::Joint);
                    if ctx == Delimiter::Brace && p.spacing() == Spacing::Alone && (p.as_char() == ';' || p.as_char() == ',') { if i + 1 < n { self.newline(); } }
                }
                TokenTree::Literal(l) => {
                    if self.space_before(tt) { self.em.cur.push(' '); }
                    self.note_span(l.span());
                    self.em.cur.push_str(&l.to_string());
                    self.prev = Prev::Lit;
                }
            }
            i += 1;
        }
    }
}
