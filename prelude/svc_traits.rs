pub trait SpawnableService<S: Spawner<Self>>: Service {}
