// ===== prelude/live.rs — futures_util::future::Shared<oneshot::Receiver<()>> (read from futures-util 0.3.31 shared.rs) =====
// A handle whose own poll returned Ready is *consumed* (inner == None). The shared state is COMPLETE only after *some*
// handle's poll has driven the inner receiver to completion.
pub open spec fn terminated(w: &World, slot: int) -> bool { w.slots[slot].resolved }
pub open spec fn slots_only_observed(pre: &World, post: &World) -> bool {
    &&& *post == World { slots: post.slots, ..*pre }
    &&& post.slots.dom() == pre.slots.dom()
    &&& forall|s: int| #![auto] post.slots[s].resolved == pre.slots[s].resolved
}
#[verifier::external_body]
pub struct SharedOneshot { x: u8 }
impl OwnView for SharedOneshot { open spec fn own(&self) -> Own { own_none() } }
impl SharedOneshot {
    pub uninterp spec fn slot(&self) -> int;
    pub uninterp spec fn consumed(&self) -> bool;
    // Shared::peek: Some iff this handle is not consumed and the state is COMPLETE — None for a terminated actor nobody polled
    #[verifier::external_body]
    pub fn peek(&self, Tracked(w): Tracked<&mut World>) -> (r: Option<&Result<(), Canceled>>)
        ensures r is Some <==> (!self.consumed() && old(w).slots[self.slot()].resolved && old(w).slots[self.slot()].observed), same_world(old(w), final(w))
    { unimplemented!() }
    // Shared::strong_count: None iff consumed; a consumed handle has seen the completion
    #[verifier::external_body]
    pub fn strong_count(&self, Tracked(w): Tracked<&mut World>) -> (r: Option<usize>)
        ensures r is None <==> self.consumed(), r is None ==> old(w).slots[self.slot()].resolved, same_world(old(w), final(w))
    { unimplemented!() }
    #[verifier::external_body]
    pub fn clone(&self) -> (r: Self) ensures r.slot() == self.slot(), r.consumed() == self.consumed() { unimplemented!() }
    // FutureExt::now_or_never on an owned handle: one poll with a no-op waker. Polling a consumed Shared panics.
    #[verifier::external_body]
    pub fn now_or_never(self, Tracked(w): Tracked<&mut World>) -> (r: Option<Result<(), Canceled>>)
        requires !self.consumed(),                                                                                           // @ob shared.no-poll-after-completion C14
        ensures r is Some <==> old(w).slots[self.slot()].resolved, slots_only_observed(old(w), final(w))
    { unimplemented!() }
}
impl SharedOneshot {
    // awaiting through `&mut` (Addr as a Future): blocks until the running slot is resolved, yields Ok iff the notifier fired, and
    // consumes this handle. Polling a consumed Shared panics.
    #[verifier::external_body]
    pub fn poll_ready(&mut self, Tracked(w): Tracked<&mut World>) -> (r: Result<(), Canceled>)
        requires !old(self).consumed(),                                                                                      // @ob shared.no-poll-after-completion C14,C04
        ensures others_ran(old(w), final(w)), final(w).slots.dom().contains(old(self).slot()), final(w).slots[old(self).slot()].resolved,
                r is Ok <==> final(w).slots[old(self).slot()].ok,
                final(self).slot() == old(self).slot(), final(self).consumed(),
    { unimplemented!() }
    // awaiting the Shared handle by value (`self.running.await`): the same, the handle is consumed by the move
    #[verifier::external_body]
    pub fn await_(self, Tracked(w): Tracked<&mut World>) -> (r: Result<(), Canceled>)
        requires !self.consumed(),                                                                                           // @ob shared.no-poll-after-completion C14,C04
        ensures others_ran(old(w), final(w)), final(w).slots.dom().contains(self.slot()), final(w).slots[self.slot()].resolved,
                r is Ok <==> final(w).slots[self.slot()].ok,
    { unimplemented!() }
}
