// ===== prelude/chan.rs — the receiving end as a PollFn stream =====
#[verifier::external_body] #[verifier::accept_recursive_types(A)] pub struct PayloadStreamObj<A> { p: core::marker::PhantomData<A> }
impl<A> PayloadStreamObj<A> { pub uninterp spec fn chan(&self) -> int; }
impl<A> OwnView for PayloadStreamObj<A> { uninterp spec fn own(&self) -> Own; }     // what the receiving closure captured (poll_fn_stream)
// futures::stream::poll_fn(Box::new(closure)): a stream that polls the receiver the closure captured
#[verifier::external_body]
pub fn poll_fn_stream<A>(f: BoxedFn<(A,)>) -> (r: PayloadStreamObj<A>) ensures r.chan() == f.cap0(), r.own() == f.captured() { unimplemented!() }
#[verifier::external_body] #[verifier::accept_recursive_types(A)] pub struct TaskFnObj<A> { p: core::marker::PhantomData<A> }

// the boxed future a waiting submit closure returns (`Pin<Box<dyn Future<Output = Result<()>> + Send>>`); only its identity matters to the adapter contracts
#[verifier::external_body] pub struct SubmitFut { x: u8 }
