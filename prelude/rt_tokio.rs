// ===== prelude/rt_tokio.rs — tokio::task::JoinHandle<T>: Output = Result<T, JoinError>; dropping the handle detaches the task =====
pub struct JoinError;
impl JoinError { #[verifier::external_body] pub fn is_panic(&self) -> (r: bool) { unimplemented!() } #[verifier::external_body] pub fn into_panic(self) -> (r: AnyPanic) { unimplemented!() } }
pub struct AnyPanic;
impl<A: Actor> VFuture for RtHandle<A> {
    type Output = Result<DynResult<A>, JoinError>;
    open spec fn pre(&self, w: &World) -> bool { true }
    open spec fn done(&self, w0: &World, w1: &World, out: &Self::Output) -> bool {
        rt_joined(self.task(), w0, w1, *out is Ok && out->Ok_0 is Ok, if *out is Ok && out->Ok_0 is Ok { out->Ok_0->Ok_0.gid() } else { 0 })
    }
    open spec fn dropped(&self, w0: &World, w1: &World) -> bool { same_world(w0, w1) }
    uninterp spec fn ready_at(&self) -> nat;
    #[verifier::external_body] fn await_(self, Tracked(w): Tracked<&mut World>) -> (r: Self::Output) { unimplemented!() }
}
pub open spec fn rt_drop_is_detach() -> bool { true }
