// the rewrite rules of DESIGN.md §4, on the syn AST
use proc_macro2::{Span, TokenStream, TokenTree};
use quote::{quote, ToTokens};
use std::collections::BTreeSet;
use syn::visit::Visit;
use syn::visit_mut::{self, VisitMut};
use syn::{parse_quote, Expr, Stmt};

use crate::util::*;
use crate::Ctx;

// ------------------------------------------------------------------------------------------
// helpers on the source AST
// ------------------------------------------------------------------------------------------
pub fn find_async_blocks(b: &syn::Block) -> Vec<syn::ExprAsync> {
    struct F(Vec<syn::ExprAsync>);
    impl<'a> Visit<'a> for F { fn visit_expr_async(&mut self, a: &'a syn::ExprAsync) { self.0.push(a.clone()); syn::visit::visit_expr_async(self, a); } }
    let mut f = F(vec![]); f.visit_block(b); f.0
}
pub fn self_fields_used(b: &syn::Block) -> BTreeSet<String> {
    struct F(BTreeSet<String>);
    impl<'a> Visit<'a> for F {
        fn visit_expr(&mut self, e: &'a Expr) {
            if let Expr::Field(f) = e { if let Expr::Path(p) = &*f.base { if p.path.is_ident("self") { if let syn::Member::Named(n) = &f.member { self.0.insert(n.to_string()); return; } } } }
            if let Expr::Path(p) = e { if p.path.is_ident("self") { self.0.insert("self".into()); } }
            if let Expr::Macro(m) = e { self.visit_tokens(m.mac.tokens.clone()); }
            syn::visit::visit_expr(self, e);
        }
        fn visit_stmt(&mut self, s: &'a Stmt) { if let Stmt::Macro(m) = s { if !is_dropped_macro(&m.mac) { self.visit_tokens(m.mac.tokens.clone()); } } syn::visit::visit_stmt(self, s); }
    }
    impl F {
        fn visit_tokens(&mut self, ts: TokenStream) {
            // `self . field` inside macro arguments (select! arms)
            let toks: Vec<TokenTree> = ts.into_iter().collect();
            let mut i = 0;
            while i < toks.len() {
                match &toks[i] {
                    TokenTree::Ident(id) if id == "self" => {
                        // `self.name(..)` is a method call on `self` as a whole, `self.name` a field
                        let is_call = matches!(toks.get(i + 3), Some(TokenTree::Group(g)) if g.delimiter() == proc_macro2::Delimiter::Parenthesis) || matches!(toks.get(i + 3), Some(TokenTree::Punct(c)) if c.as_char() == ':');
                        if let (Some(TokenTree::Punct(p)), Some(TokenTree::Ident(f))) = (toks.get(i + 1), toks.get(i + 2)) { if p.as_char() == '.' && !is_call { self.0.insert(f.to_string()); i += 3; continue; } }
                        self.0.insert("self".into());
                    }
                    TokenTree::Group(g) => self.visit_tokens(g.stream()),
                    _ => {}
                }
                i += 1;
            }
        }
    }
    let mut f = F(BTreeSet::new()); f.visit_block(b); f.0
}
pub fn mentions_ident(b: &syn::Block, id: &str) -> bool {
    fn go(ts: TokenStream, id: &str) -> bool { ts.into_iter().any(|t| match t { TokenTree::Ident(i) => i == id, TokenTree::Group(g) => go(g.stream(), id), _ => false }) }
    go(b.to_token_stream(), id)
}
struct Binders<'b>(&'b mut BTreeSet<String>);
impl<'a, 'b> Visit<'a> for Binders<'b> { fn visit_pat_ident(&mut self, p: &'a syn::PatIdent) { if !p.ident.to_string().chars().next().map(|c| c.is_uppercase()).unwrap_or(false) { self.0.insert(p.ident.to_string()); } if let Some((_, sub)) = &p.subpat { self.visit_pat(sub); } } }
pub fn collect_binders_sig(sig: &syn::Signature) -> BTreeSet<String> {
    let mut s = BTreeSet::new();
    for inp in &sig.inputs { if let syn::FnArg::Typed(pt) = inp { Binders(&mut s).visit_pat(&pt.pat); } }
    s
}
pub fn collect_binders_pat(p: &syn::Pat, s: &mut BTreeSet<String>) { Binders(s).visit_pat(p); }
/// a closure whose body ends in `Box::pin(async move { B })` / `async move { B }` returns the future that runs B: the lifted
/// function is the eager "call and await" of it, so the block is inlined (captures of B are locals of the closure body)
pub fn inline_tail_async(b: &mut syn::Block, cx: &mut Ctx) {
    fn strip(e: &Expr) -> &Expr { match e { Expr::Call(c) if c.args.len() == 1 && nospace(&c.func.to_token_stream().to_string()) == "Box::pin" => strip(&c.args[0]), Expr::Paren(p) => strip(&p.expr), other => other } }
    if let Some(Stmt::Expr(e, None)) = b.stmts.last() {
        let stripped = strip(e);
        if let Expr::Async(a) = stripped { let inner = a.block.stmts.clone(); b.stmts.pop(); b.stmts.extend(inner); cx.fire("A5"); }
        else if !std::ptr::eq(stripped, e) && matches!(stripped, Expr::Call(_) | Expr::MethodCall(_)) {
            // Box::pin(f(..)): the boxed future of a call is run by whoever awaits the closure's result
            let call = stripped.clone(); b.stmts.pop(); b.stmts.push(Stmt::Expr(parse_quote!(#call.await), None)); cx.fire("A5");
        }
    }
}
pub fn collect_binders_block(b: &syn::Block, s: &mut BTreeSet<String>) {
    struct All<'b>(&'b mut BTreeSet<String>);
    impl<'a, 'b> Visit<'a> for All<'b> {
        fn visit_pat_ident(&mut self, p: &'a syn::PatIdent) { if !p.ident.to_string().chars().next().map(|c| c.is_uppercase()).unwrap_or(false) { self.0.insert(p.ident.to_string()); } if let Some((_, sub)) = &p.subpat { self.visit_pat(sub); } }
        fn visit_macro(&mut self, m: &'a syn::Macro) {
            // select! arm patterns
            if is_select(m) { if let Ok(arms) = syn::parse2::<Arms>(m.tokens.clone()) { for a in arms.0 { if let Some(p) = &a.pat { self.visit_pat(p); } self.visit_expr(&a.body); } } }
        }
    }
    All(s).visit_block(b);
}
/// the binders a function body introduces, in source order, closures excluded (`$B0`, `$B1`, .. in loop and proof sections of the
/// contracts stand for them, so that renaming a local does not detach an invariant that has to mention it)
pub fn ordered_binders(b: &syn::Block) -> Vec<String> {
    struct All(Vec<String>);
    impl<'a> Visit<'a> for All {
        fn visit_pat_ident(&mut self, p: &'a syn::PatIdent) { let n = p.ident.to_string(); if !n.chars().next().map(|c| c.is_uppercase()).unwrap_or(false) && !self.0.contains(&n) { self.0.push(n); } if let Some((_, sub)) = &p.subpat { self.visit_pat(sub); } }
        fn visit_expr_closure(&mut self, _: &'a syn::ExprClosure) {}
        fn visit_expr_async(&mut self, _: &'a syn::ExprAsync) {}
    }
    let mut a = All(vec![]); a.visit_block(b); a.0
}
pub fn is_dropped_macro(m: &syn::Macro) -> bool {
    let p = nospace(&m.path.to_token_stream().to_string());
    (p.starts_with("log::") && p != "log::log_enabled") || p == "eprintln" || p == "println" || p == "debug_assert" || p == "debug_assert_eq" || p == "dbg"
}
/// G7: a strong handle obtained by an upgrade must not be alive at a sleep (a timer body that keeps one across its sleep keeps its own
/// actor alive for a period). A binding made from a call of one of `ups` (by `let`, `let .. else`, `if let`, `while let`, a `match` arm)
/// whose scope contains a later call of one of `sleeps`, with no `drop(binding)` in between at the same level, gets the marker call
/// `marker();` (whose precondition is the obligation) placed in front of the binding statement. Returns the number of sites.
pub fn mark_held_across(b: &mut syn::Block, ups: &[String], sleeps: &[String], marker: &str) -> usize {
    fn calls_any(ts: TokenStream, names: &[String]) -> bool {
        let v: Vec<TokenTree> = ts.into_iter().collect();
        for i in 0..v.len() { match &v[i] {
            TokenTree::Ident(id) if names.iter().any(|n| id == n) => { if matches!(v.get(i + 1), Some(TokenTree::Group(g)) if g.delimiter() == proc_macro2::Delimiter::Parenthesis) || matches!((v.get(i + 1), v.get(i + 2)), (Some(TokenTree::Punct(p)), Some(TokenTree::Punct(q))) if p.as_char() == ':' && q.as_char() == ':') { return true; } }
            TokenTree::Group(g) => { if calls_any(g.stream(), names) { return true; } }
            _ => {}
        } }
        false
    }
    fn is_drop_of(st: &Stmt, names: &BTreeSet<String>) -> bool {
        if let Stmt::Expr(Expr::Call(c), _) = st { let f = nospace(&c.func.to_token_stream().to_string()); if matches!(f.as_str(), "drop" | "std::mem::drop" | "mem::drop") && c.args.len() == 1 { if let Expr::Path(p) = &c.args[0] { if let Some(i) = p.path.get_ident() { return names.contains(&i.to_string()); } } } }
        false
    }
    fn walk_block(b: &mut syn::Block, ups: &[String], sleeps: &[String], marker: &syn::Ident, n: &mut usize) {
        let mut i = 0;
        while i < b.stmts.len() {
            let mut flag = false;
            if let Stmt::Local(l) = &b.stmts[i] { if let Some(init) = &l.init { if calls_any(init.expr.to_token_stream(), ups) {
                let names = { let mut s = BTreeSet::new(); Binders(&mut s).visit_pat(&l.pat); s };
                if !names.is_empty() { for st in &b.stmts[i + 1..] { if is_drop_of(st, &names) { break; } if calls_any(st.to_token_stream(), sleeps) { flag = true; break; } } }
            } } }
            if let Stmt::Expr(e, _) = &b.stmts[i] { match e {
                Expr::If(ifx) => { if let Expr::Let(l) = &*ifx.cond { if calls_any(l.expr.to_token_stream(), ups) && calls_any(ifx.then_branch.to_token_stream(), sleeps) { flag = true; } } }
                Expr::While(wl) => { if let Expr::Let(l) = &*wl.cond { if calls_any(l.expr.to_token_stream(), ups) && calls_any(wl.body.to_token_stream(), sleeps) { flag = true; } } }
                Expr::Match(m) => { if calls_any(m.expr.to_token_stream(), ups) && m.arms.iter().any(|a| !binders_of(&a.pat).is_empty() && calls_any(a.body.to_token_stream(), sleeps)) { flag = true; } }
                _ => {}
            } }
            if flag { let st: Stmt = parse_quote!(#marker();); b.stmts.insert(i, st); *n += 1; i += 1; }
            // descend
            struct D<'a> { ups: &'a [String], sleeps: &'a [String], marker: &'a syn::Ident, n: &'a mut usize }
            impl<'a> VisitMut for D<'a> { fn visit_block_mut(&mut self, bb: &mut syn::Block) { walk_block(bb, self.ups, self.sleeps, self.marker, self.n); } }
            let mut d = D { ups, sleeps, marker, n };
            d.visit_stmt_mut(&mut b.stmts[i]);
            i += 1;
        }
    }
    let mk = ident(marker); let mut n = 0usize;
    walk_block(b, ups, sleeps, &mk, &mut n);
    n
}
/// D1 drops log statements; an argument that does more than read (a call that is not a known reader) is kept as a statement of its
/// own, so that a side effect hidden in a log line stays in the verified text
pub fn impure_log_args(m: &syn::Macro) -> Result<Vec<Expr>, String> {
    let p = nospace(&m.path.to_token_stream().to_string());
    if p.starts_with("debug_assert") { return Ok(vec![]); }
    let mut pieces: Vec<TokenStream> = vec![]; let mut cur: Vec<TokenTree> = vec![];
    for tt in m.tokens.clone() { match &tt { TokenTree::Punct(pu) if pu.as_char() == ',' || pu.as_char() == ';' => { pieces.push(cur.drain(..).collect()); } _ => cur.push(tt) } }
    if !cur.is_empty() { pieces.push(cur.into_iter().collect()); }
    struct V(bool);
    impl<'a> Visit<'a> for V {
        fn visit_expr_method_call(&mut self, m: &'a syn::ExprMethodCall) {
            const PURE: [&str; 27] = ["len", "is_empty", "is_some", "is_none", "is_ok", "is_err", "as_ref", "as_str", "to_string", "clone", "id", "to_owned", "display", "type_id", "as_deref", "strong_count",
                "weak_count", "is_finished", "is_closed", "is_canceled", "is_terminated", "capacity", "name", "task", "is_panic", "is_cancelled", "is_disconnected"];
            if !PURE.contains(&m.method.to_string().as_str()) { self.0 = true; }
            syn::visit::visit_expr_method_call(self, m);
        }
        fn visit_expr_call(&mut self, c: &'a syn::ExprCall) {
            let f = nospace(&c.func.to_token_stream().to_string());
            if !(f.contains("type_name") || f == "Some" || f == "Ok" || f == "Err" || f.ends_with("strong_count") || f.ends_with("weak_count")) { self.0 = true; }
            syn::visit::visit_expr_call(self, c);
        }
        fn visit_expr_await(&mut self, _: &'a syn::ExprAwait) { self.0 = true; }
        fn visit_expr_macro(&mut self, _: &'a syn::ExprMacro) { self.0 = true; }
        fn visit_expr_assign(&mut self, _: &'a syn::ExprAssign) { self.0 = true; }
    }
    let mut out = vec![];
    for pc in pieces {
        // `key = value` pairs of the structured-logging form: look at the value
        let toks: Vec<TokenTree> = pc.clone().into_iter().collect();
        let val: TokenStream = match toks.iter().position(|t| matches!(t, TokenTree::Punct(p) if p.as_char() == '=')) {
            Some(i) if i > 0 && !matches!(toks.get(i + 1), Some(TokenTree::Punct(p)) if p.as_char() == '=') && !matches!(toks.get(i - 1), Some(TokenTree::Punct(_))) => toks[i + 1..].iter().cloned().collect(),
            _ => pc.clone(),
        };
        match syn::parse2::<Expr>(val.clone()) {
            Ok(e) => { let mut v = V(false); v.visit_expr(&e); if v.0 { out.push(e); } }
            Err(_) => { if val.to_string().contains('(') { return Err(format!("log argument `{}`", nospace(&val.to_string()))); } }
        }
    }
    Ok(out)
}
fn is_select(m: &syn::Macro) -> bool { m.path.segments.last().map(|s| s.ident == "select" || s.ident == "select_biased").unwrap_or(false) }
fn is_select_biased(m: &syn::Macro) -> bool { m.path.segments.last().map(|s| s.ident == "select_biased").unwrap_or(false) }
fn is_panic(m: &syn::Macro) -> bool { m.path.segments.last().map(|s| matches!(s.ident.to_string().as_str(), "panic" | "unreachable" | "unimplemented" | "todo")).unwrap_or(false) }
fn is_pin_macro(m: &syn::Macro) -> bool { m.path.segments.last().map(|s| s.ident == "pin").unwrap_or(false) }

// `futures::select!` arms
struct Arm { pat: Option<syn::Pat>, fut: Option<Expr>, body: Expr, kw: Option<String> }
struct Arms(Vec<Arm>);
impl syn::parse::Parse for Arms {
    fn parse(input: syn::parse::ParseStream) -> syn::Result<Self> {
        let mut v = vec![];
        while !input.is_empty() {
            if (input.peek(syn::Ident) && input.peek2(syn::Token![=>])) || (input.peek(syn::Token![default]) && input.peek2(syn::Token![=>])) {
                let kw: String = if input.peek(syn::Token![default]) { input.parse::<syn::Token![default]>()?; "default".into() } else { input.parse::<syn::Ident>()?.to_string() };
                input.parse::<syn::Token![=>]>()?;
                // a block body ends the arm (no comma needed): parse it as a block, not as the head of a call `{..}(..)`
                let body: Expr = if input.peek(syn::token::Brace) { Expr::Block(input.parse::<syn::ExprBlock>()?) } else { input.parse()? };
                v.push(Arm { pat: None, fut: None, body, kw: Some(kw) });
            } else {
                let pat = syn::Pat::parse_single(input)?;
                input.parse::<syn::Token![=]>()?;
                let fut: Expr = input.parse()?;
                input.parse::<syn::Token![=>]>()?;
                let body: Expr = if input.peek(syn::token::Brace) { Expr::Block(input.parse::<syn::ExprBlock>()?) } else { input.parse()? };
                v.push(Arm { pat: Some(pat), fut: Some(fut), body, kw: None });
            }
            let _ = input.parse::<Option<syn::Token![,]>>()?;
        }
        Ok(Arms(v))
    }
}

// ------------------------------------------------------------------------------------------
// types and paths (rules T1, T2, N1, I1, D4)
// ------------------------------------------------------------------------------------------
const STRIP_ROOTS: &[&str] = &["crate", "super", "std", "core", "alloc"];

/// flatten a token stream into strings (`->`, `::` and lifetimes joined; groups as open/close tokens)
fn flat(ts: TokenStream, out: &mut Vec<String>) {
    let toks: Vec<TokenTree> = ts.into_iter().collect();
    let mut i = 0;
    while i < toks.len() {
        match &toks[i] {
            TokenTree::Group(g) => {
                let (o, c) = match g.delimiter() { proc_macro2::Delimiter::Parenthesis => ("(", ")"), proc_macro2::Delimiter::Bracket => ("[", "]"), proc_macro2::Delimiter::Brace => ("{", "}"), _ => ("", "") };
                if !o.is_empty() { out.push(o.into()); } flat(g.stream(), out); if !c.is_empty() { out.push(c.into()); }
            }
            TokenTree::Punct(p) => {
                let c = p.as_char();
                if let Some(TokenTree::Punct(q)) = toks.get(i + 1) { if p.spacing() == proc_macro2::Spacing::Joint && ((c == '-' && q.as_char() == '>') || (c == ':' && q.as_char() == ':')) { out.push(format!("{}{}", c, q.as_char())); i += 2; continue; } }
                if c == '\'' { if let Some(TokenTree::Ident(id)) = toks.get(i + 1) { out.push(format!("'{}", id)); i += 2; continue; } }
                if c == '$' { if let Some(TokenTree::Literal(l)) = toks.get(i + 1) { out.push(format!("${}", l)); i += 2; continue; } }
                out.push(c.to_string());
            }
            other => out.push(other.to_string()),
        }
        i += 1;
    }
}
/// match token list `text` against `pat` with $1..$9 wildcards (balanced, non-empty, no top-level comma)
fn match_pat(pat: &[String], text: &[String], caps: &mut Vec<(String, String)>) -> bool {
    if pat.is_empty() { return text.is_empty(); }
    if pat[0].starts_with('$') && pat[0].len() == 2 {
        let mut depth: i32 = 0;
        for i in 0..text.len() {
            match text[i].as_str() { "<" | "(" | "[" => depth += 1, ">" | ")" | "]" => { depth -= 1; if depth < 0 { return false; } } "," if depth == 0 => return false, _ => {} }
            if depth == 0 {
                let mut c2 = caps.clone(); c2.push((pat[0].clone(), text[..=i].join(" ")));
                if match_pat(&pat[1..], &text[i + 1..], &mut c2) { *caps = c2; return true; }
            }
        }
        return false;
    }
    if !text.is_empty() && pat[0] == text[0] { return match_pat(&pat[1..], &text[1..], caps); }
    false
}
fn type_key(t: &syn::Type) -> String { t.to_token_stream().to_string() }
pub fn map_type(t: &mut syn::Type, cx: &mut Ctx) {
    let key = type_key(t);
    let mut keytoks = vec![]; flat(t.to_token_stream(), &mut keytoks);
    for (pat, rep) in cx.unit.types.clone() {
        let mut caps = vec![];
        let mut pattoks = vec![]; match pat.parse::<TokenStream>() { Ok(ts) => flat(ts, &mut pattoks), Err(e) => { cx.err(format!("unit file: type pattern `{}`: {}", pat, e)); continue; } }
        if match_pat(&pattoks, &keytoks, &mut caps) {
            let mut out = rep.clone();
            for (id, txt) in caps {
                let mapped = match syn::parse_str::<syn::Type>(&txt) { Ok(mut ct) => { map_type(&mut ct, cx); ct.to_token_stream().to_string() } Err(_) => txt };
                out = out.replace(&id, &mapped);
            }
            match syn::parse_str::<syn::Type>(&out) { Ok(nt) => { *t = nt; cx.fire("T1"); } Err(e) => cx.err(format!("unit file: type replacement `{}` does not parse: {}", out, e)) }
            return;
        }
    }
    match t {
        syn::Type::Path(tp) => {
            if tp.qself.is_none() { strip_module_prefix(&mut tp.path, cx, true); }
            map_path_types(&mut tp.path, cx);
            if let Some(q) = &mut tp.qself { map_type(&mut q.ty, cx); }
        }
        syn::Type::Reference(r) => { if let Some(l) = &r.lifetime { if l.ident == "static" { r.lifetime = None; } } map_type(&mut r.elem, cx) }
        syn::Type::Tuple(tt) => { for e in tt.elems.iter_mut() { map_type(e, cx); } }
        syn::Type::Paren(p) => map_type(&mut p.elem, cx),
        syn::Type::Group(p) => map_type(&mut p.elem, cx),
        syn::Type::Slice(s) => map_type(&mut s.elem, cx),
        syn::Type::Array(s) => map_type(&mut s.elem, cx),
        syn::Type::ImplTrait(it) => {
            // I1: impl Into<T> -> T
            for b in &it.bounds { if let syn::TypeParamBound::Trait(tb) = b { if let Some(seg) = tb.path.segments.last() { if seg.ident == "Into" {
                if let syn::PathArguments::AngleBracketed(ab) = &seg.arguments { if let Some(syn::GenericArgument::Type(inner)) = ab.args.first() { let mut inner = inner.clone(); map_type(&mut inner, cx); *t = inner; cx.fire("I1"); return; } }
            } } } }
            cx.err(format!("outside dialect: no type rule for `{}`", key));
        }
        syn::Type::TraitObject(_) => cx.err(format!("outside dialect: no type rule for trait object `{}`", key)),
        syn::Type::Infer(_) | syn::Type::Never(_) => {}
        _ => cx.err(format!("outside dialect: type `{}`", key)),
    }
}
pub fn map_path_types(p: &mut syn::Path, cx: &mut Ctx) {
    for seg in p.segments.iter_mut() {
        match &mut seg.arguments {
            syn::PathArguments::AngleBracketed(ab) => {
                for a in ab.args.iter_mut() {
                    match a { syn::GenericArgument::Type(t) => map_type(t, cx), syn::GenericArgument::AssocType(at) => map_type(&mut at.ty, cx), _ => {} }
                }
            }
            syn::PathArguments::Parenthesized(pa) => { for t in pa.inputs.iter_mut() { map_type(t, cx); } if let syn::ReturnType::Type(_, t) = &mut pa.output { map_type(t, cx); } }
            syn::PathArguments::None => {}
        }
    }
}
/// a parameter type; `impl Trait` parameters must be covered by a `type` rule of the unit, which may introduce a lifetime `'a`
pub fn map_param_type(t: &mut syn::Type, cx: &mut Ctx, lifetimes: &mut Vec<String>) {
    map_type(t, cx);
    let s = t.to_token_stream().to_string();
    for lt in ["'a", "'b"] { if s.contains(lt) && !lifetimes.contains(&lt.to_string()) { lifetimes.push(lt.to_string()); } }
}
pub fn strip_bound_prefix(p: &mut syn::Path, cx: &mut Ctx) { if p.segments.len() >= 2 { let first = p.segments[0].ident.to_string(); if STRIP_ROOTS.contains(&first.as_str()) || cx.local_mods.contains(&first) { strip_module_prefix(p, cx, true); } } }
/// N1: drop leading module segments of crate-/std-rooted paths; other multi-segment lower-case roots need an explicit `path`/`type` rule
fn strip_module_prefix(p: &mut syn::Path, cx: &mut Ctx, is_type: bool) {
    if p.segments.len() < 2 { return; }
    let first = p.segments[0].ident.to_string();
    let lower = |s: &syn::PathSegment| s.ident.to_string().chars().next().map(|c| c.is_lowercase()).unwrap_or(false);
    if !lower(&p.segments[0]) { return; }
    // a top-level module of the crate under extraction (`src/<first>.rs` or `src/<first>/`) is crate-local as well
    let crate_mod = cx.repo.join("src").join(format!("{}.rs", first)).exists() || cx.repo.join("src").join(&first).is_dir();
    if !STRIP_ROOTS.contains(&first.as_str()) && !cx.local_mods.contains(&first) && !crate_mod {
        cx.err(format!("outside dialect: no {} rule for `{}`", if is_type { "type" } else { "path" }, nospace(&p.to_token_stream().to_string())));
        return;
    }
    let segs: Vec<syn::PathSegment> = p.segments.iter().cloned().collect();
    let mut start = segs.len() - 1;
    for (i, s) in segs.iter().enumerate() { if !lower(s) { start = i; break; } }
    let mut np = syn::Path { leading_colon: None, segments: Default::default() };
    for s in segs[start..].iter() { np.segments.push(s.clone()); }
    *p = np; cx.fire("N1");
}

// ------------------------------------------------------------------------------------------
// A5: normalise a fn returning `impl Future` to an eager fn
// ------------------------------------------------------------------------------------------
pub fn a5_normalise(b: &mut syn::Block, cx: &mut Ctx) -> bool {
    // drop log statements first so that `log; async { .. }` counts as a single async block
    b.stmts.retain(|s| match s { Stmt::Macro(m) => !is_dropped_macro(&m.mac), _ => true });
    // `let`s that only compute values (no await can be in them: the function is not async) followed by the async block: what they
    // compute is computed when the function is called instead of at the first poll, with nothing observable in between
    if b.stmts.len() > 1 && b.stmts[..b.stmts.len() - 1].iter().all(|st| matches!(st, Stmt::Local(_))) {
        if let Some(Stmt::Expr(Expr::Async(a), None)) = b.stmts.last() { let mut all: Vec<Stmt> = b.stmts[..b.stmts.len() - 1].to_vec(); all.extend(a.block.stmts.clone()); b.stmts = all; let _ = cx; return true; }
    }
    if b.stmts.len() != 1 { return false; }
    let Stmt::Expr(e, None) = &b.stmts[0] else { return false; };
    match e {
        Expr::Async(a) => { let nb = a.block.clone(); *b = nb; true }
        Expr::Call(_) => { let call = e.clone(); let st: Stmt = Stmt::Expr(parse_quote!(#call.await), None); b.stmts = vec![st]; true }
        Expr::MethodCall(m) if (m.method == "map" || m.method == "then") && m.args.len() == 1 => {
            // a chain of FutureExt::map / FutureExt::then over an eager call: `f().then(|p| g()).map(|q| e)` runs f, then g, then yields e
            fn chain(e: &Expr) -> Option<(Vec<Stmt>, Expr)> {
                match e {
                    Expr::Call(_) => Some((vec![], parse_quote!(#e.await))),
                    Expr::MethodCall(m) if (m.method == "map" || m.method == "then") && m.args.len() == 1 => {
                        let Expr::Closure(cl) = &m.args[0] else { return None; };
                        if cl.inputs.len() != 1 { return None; }
                        let (mut st, v) = chain(&m.receiver)?;
                        let pat: syn::Pat = match &cl.inputs[0] { syn::Pat::Wild(_) => parse_quote!(_hx_ignored), p => p.clone() };
                        st.push(parse_quote!(let #pat = #v;));
                        let body = &cl.body;
                        if m.method == "then" {
                            // `.then(|p| async move { .. })`: the block is what runs next; `.then(|p| g(p))`: g's future
                            if let Expr::Async(a) = &**body { let blk = &a.block; return Some((st, parse_quote!(#blk))); }
                            if !matches!(&**body, Expr::Call(_) | Expr::MethodCall(_)) { return None; } Some((st, parse_quote!(#body.await)))
                        } else { Some((st, (**body).clone())) }
                    }
                    _ => None,
                }
            }
            match chain(e) { Some((st, v)) => { let nb: syn::Block = parse_quote!({ #(#st)* #v }); *b = nb; let _ = cx; true } None => false }
        }
        _ => false,
    }
}

/// A6 (see main.rs): turns a `poll` of the fixed shape into an eager `await_(&mut self)`
pub fn a6_poll_to_await(f: &mut crate::FnLike, cx: &mut Ctx) -> bool {
    let _ = cx;
    // output type: Poll<O> -> O
    let out: syn::Type = match &f.sig.output { syn::ReturnType::Type(_, t) => match &**t { syn::Type::Path(tp) => { let seg = tp.path.segments.last().unwrap(); if seg.ident != "Poll" { return false; } match &seg.arguments { syn::PathArguments::AngleBracketed(ab) => match ab.args.first() { Some(syn::GenericArgument::Type(t)) => t.clone(), _ => return false }, _ => return false } } _ => return false }, _ => return false };
    let mut stmts: Vec<Stmt> = f.block.stmts.iter().filter(|s| match s { Stmt::Macro(m) => !is_dropped_macro(&m.mac), _ => true }).cloned().collect();
    // `let this = self.get_mut();` first: `this` is `self`
    if stmts.len() >= 2 {
        if let Stmt::Local(l) = &stmts[0] { if let (syn::Pat::Ident(pi), Some(init)) = (&l.pat, &l.init) {
            if nospace(&init.expr.to_token_stream().to_string()) == "self.get_mut()" && init.diverge.is_none() {
                let name = pi.ident.to_string();
                fn ren(ts: TokenStream, from: &str) -> TokenStream { ts.into_iter().map(|t| match t { TokenTree::Ident(i) if i == from => TokenTree::Ident(proc_macro2::Ident::new("self", i.span())), TokenTree::Group(g) => { let mut ng = proc_macro2::Group::new(g.delimiter(), ren(g.stream(), from)); ng.set_span(g.span()); TokenTree::Group(ng) } o => o }).collect() }
                let rest: Vec<Stmt> = stmts[1..].iter().filter_map(|st| syn::parse2::<Stmt>(ren(st.to_token_stream(), &name)).ok()).collect();
                if rest.len() == stmts.len() - 1 { stmts = rest; }
            }
        } }
    }
    // `match <poll> { Poll::Ready(p) => Poll::Ready(F), Poll::Pending => Poll::Pending }` is `<poll>.map(|p| F)`
    if stmts.len() == 1 {
        if let Stmt::Expr(Expr::Match(mt), None) = &stmts[0] { if mt.arms.len() == 2 {
            let last = |p: &syn::Path| p.segments.last().map(|s| s.ident.to_string()).unwrap_or_default();
            let mut ready: Option<(syn::Pat, Expr)> = None; let mut pending_ok = false;
            for a in &mt.arms { if a.guard.is_some() { continue; } match &a.pat {
                syn::Pat::TupleStruct(ts) if last(&ts.path) == "Ready" && ts.elems.len() == 1 => { if let Expr::Call(c) = &*a.body { if let Expr::Path(fp) = &*c.func { if last(&fp.path) == "Ready" && c.args.len() == 1 { ready = Some((ts.elems[0].clone(), c.args[0].clone())); } } } }
                syn::Pat::Path(pp) if last(&pp.path) == "Pending" => { if let Expr::Path(bp) = &*a.body { if last(&bp.path) == "Pending" { pending_ok = true; } } }
                syn::Pat::Ident(pi) if pi.ident == "Pending" => { if let Expr::Path(bp) = &*a.body { if last(&bp.path) == "Pending" { pending_ok = true; } } }
                _ => {} } }
            if let (Some((p, f)), true) = (ready, pending_ok) { let scrut = &mt.expr; let st: Stmt = Stmt::Expr(parse_quote!(#scrut.map(|#p| #f)), None); stmts = vec![st]; }
        } }
    }
    // `let x = <poll>; x.map(..)` reads the same as `<poll>.map(..)`
    if stmts.len() == 2 {
        if let (Stmt::Local(l), Stmt::Expr(Expr::MethodCall(m2), None)) = (&stmts[0], &stmts[1]) {
            if let (syn::Pat::Ident(pi), Some(init), Expr::Path(rp)) = (&l.pat, &l.init, &*m2.receiver) {
                if rp.path.is_ident(&pi.ident) && init.diverge.is_none() { let mut m3 = m2.clone(); m3.receiver = init.expr.clone(); stmts = vec![Stmt::Expr(Expr::MethodCall(m3), None)]; }
            }
        }
    }
    if stmts.len() != 1 { return false; }
    let Stmt::Expr(Expr::MethodCall(m), None) = stmts.remove(0) else { return false; };
    if m.method != "map" || m.args.len() != 1 { return false; }
    let Expr::Closure(cl) = &m.args[0] else { return false; };
    let Some(pat) = closure_single_pat(cl) else { return false; };
    let Expr::MethodCall(pu) = &*m.receiver else { return false; };
    if pu.method != "poll_unpin" && pu.method != "poll" { return false; }
    // <place>: `self.get_mut().field` -> `self.field`
    let mut place = (*pu.receiver).clone();
    struct G; impl VisitMut for G { fn visit_expr_mut(&mut self, e: &mut Expr) { visit_mut::visit_expr_mut(self, e); if let Expr::MethodCall(m) = e { if m.method == "get_mut" && m.args.is_empty() { let r = (*m.receiver).clone(); *e = r; } } } }
    G.visit_expr_mut(&mut place);
    let body = &cl.body;
    f.block = parse_quote!({ let #pat = #place.poll_ready(); #body });
    f.sig = parse_quote!(fn await_(&mut self) -> #out);
    true
}

// ------------------------------------------------------------------------------------------
// the body rewriter
// ------------------------------------------------------------------------------------------
pub struct Rw<'c> {
    pub cx: &'c mut Ctx,
    pub lifted: bool,          // body of a lifted async block: self.<f> -> self_<f>
    pub binders: BTreeSet<String>,
    pub fn_name: String,
    pub loops: usize,
    pub g6_sites: usize,          // lock guards found alive across an await (rule G6), also reported by a separate marker function per site
    pub self_to_this: bool,
    pub self_by_value: bool,   // the receiver is `self` / `mut self` (not a reference): `self.await` may move it
    pub closures: usize,
    pub lifted_closures: Vec<LiftedClosure>,
    pub lift_prefix: String,
    pub gen_idents: Vec<String>,          // generic type parameters of the enclosing item (for typed closure constructors)
    pub typed_ctors: BTreeSet<String>,    // constructors whose signature the spec gives (`@sig <name>__new`)
    pub typed_caps: BTreeSet<String>,     // "<ctor> <capture>" pairs whose type the spec gives (`@captype <ctor> <capture>`)
    pub into_params: BTreeSet<String>,    // parameters declared `impl Into<T>` (rule I1): `p.into()` is `p`
    pub local_types: std::collections::BTreeMap<String, String>,   // declared types of parameters and of locals that are clones of them
    pub ctor_param_names: std::collections::BTreeMap<String, Vec<String>>, // `@sig X__new` sections that NAME their parameters: the order the constructor takes its captures in
}
/// a closure literal or async block that is used as a value (rules L1 / A3)
#[derive(Clone)]
pub struct LiftedClosure { pub cap_types: Vec<Option<String>>, pub k: usize, pub name: String, pub captures: Vec<String>, pub is_move: bool, pub inputs: Vec<syn::Pat>, pub body: syn::Block, pub is_async_block: bool, pub line: usize }
fn name_for_ctor(c: &syn::Ident) -> String { c.to_string().trim_end_matches("__new").to_string() }
fn ident(s: &str) -> syn::Ident { syn::Ident::new(s, Span::call_site()) }
fn call_last_ident(e: &Expr) -> Option<String> {
    match e {
        Expr::MethodCall(m) => Some(m.method.to_string()),
        Expr::Call(c) => match &*c.func { Expr::Path(p) => p.path.segments.last().map(|s| s.ident.to_string()), _ => None },
        _ => None,
    }
}
fn rename_call(e: &mut Expr, new: &str) {
    match e {
        Expr::MethodCall(m) => m.method = syn::Ident::new(new, m.method.span()),
        Expr::Call(c) => if let Expr::Path(p) = &mut *c.func { if let Some(s) = p.path.segments.last_mut() { s.ident = syn::Ident::new(new, s.ident.span()); } },
        _ => {}
    }
}
fn closure_single_pat(cl: &syn::ExprClosure) -> Option<syn::Pat> {
    if cl.inputs.len() != 1 { return None; }
    Some(match &cl.inputs[0] { syn::Pat::Type(pt) => (*pt.pat).clone(), p => p.clone() })
}
fn block_escapes(b: &syn::Block) -> bool {
    struct F(bool);
    impl<'a> Visit<'a> for F {
        fn visit_expr_return(&mut self, _: &'a syn::ExprReturn) { self.0 = true; }
        fn visit_expr_break(&mut self, _: &'a syn::ExprBreak) { self.0 = true; }
        fn visit_expr_continue(&mut self, _: &'a syn::ExprContinue) { self.0 = true; }
        fn visit_expr_try(&mut self, _: &'a syn::ExprTry) { self.0 = true; }
        fn visit_expr_closure(&mut self, _: &'a syn::ExprClosure) {}
    }
    let mut f = F(false); f.visit_block(b); f.0
}
fn has_control_escape(e: &Expr) -> bool {
    struct F(bool);
    impl<'a> Visit<'a> for F {
        fn visit_expr_return(&mut self, _: &'a syn::ExprReturn) { self.0 = true; }
        fn visit_expr_try(&mut self, _: &'a syn::ExprTry) { self.0 = true; }
        fn visit_expr_closure(&mut self, _: &'a syn::ExprClosure) {}
    }
    let mut f = F(false); f.visit_expr(e); f.0
}

impl<'c> Rw<'c> {
    pub fn new(cx: &'c mut Ctx, lifted: bool, binders: BTreeSet<String>, fn_name: String) -> Self { Rw { cx, lifted, binders, lift_prefix: fn_name.replace("::", "__").replace('@', "_"), fn_name, loops: 0, g6_sites: 0, self_to_this: false, self_by_value: false, closures: 0, lifted_closures: vec![], gen_idents: vec![], typed_ctors: BTreeSet::new(), typed_caps: BTreeSet::new(), into_params: BTreeSet::new(), local_types: Default::default(), ctor_param_names: Default::default() } }

    fn select_to_match(&mut self, m: &syn::Macro) -> Option<Expr> {
        let arms: Arms = match syn::parse2(m.tokens.clone()) { Ok(a) => a, Err(e) => { self.cx.err(format!("outside dialect: select! arms in {}: {}", self.fn_name, e)); return None; } };
        let futs: Vec<Expr> = arms.0.iter().filter_map(|a| a.fut.clone()).collect();
        if futs.len() != 2 { self.cx.err(format!("outside dialect: select! with {} future arms in {}", futs.len(), self.fn_name)); return None; }
        if arms.0.iter().any(|a| a.kw.as_deref() == Some("default")) { self.cx.err(format!("outside dialect: select! with a `default` arm in {}", self.fn_name)); return None; }
        let names = ["A", "B"];
        let mut match_arms: Vec<TokenStream> = vec![];
        let mut i = 0;
        for a in &arms.0 {
            let body = &a.body;
            if let Some(p) = &a.pat { let n = ident(names[i]); i += 1; match_arms.push(quote!(Sel::#n(#p) => #body,)); }
            else if a.kw.as_deref() == Some("complete") { match_arms.push(quote!(Sel::Complete => #body,)); }
        }
        if !arms.0.iter().any(|a| a.kw.as_deref() == Some("complete")) { match_arms.push(quote!(Sel::Complete => vpanic(),)); }
        let (f0, f1) = (&futs[0], &futs[1]);
        self.cx.fire("A4");
        // A4b: `select_biased!` always prefers its first ready arm: the other source can be starved for ever (select2_biased carries that
        // as an obligation); otherwise it behaves like select!
        if is_select_biased(m) { self.cx.fire("A4b"); return Some(parse_quote!(match select2_biased(#f0, #f1) { #(#match_arms)* })); }
        Some(parse_quote!(match select2(#f0, #f1) { #(#match_arms)* }))
    }

    /// C1: inline Option/Result adapters by their std definitions
    fn inline_adapter(&mut self, e: &mut Expr) {
        let Expr::MethodCall(m) = e else { return; };
        let name = m.method.to_string();
        let recv = (*m.receiver).clone();
        let v = ident("hx_v");
        let new: Option<Expr> = match (name.as_str(), m.args.len()) {
            ("ok", 0) => Some(parse_quote!(match #recv { Ok(#v) => Some(#v), Err(_) => None })),
            ("cloned", 0) => Some(parse_quote!(match #recv { Some(#v) => Some(#v.clone()), None => None })),
            ("ok_or", 1) => { let a = &m.args[0]; if matches!(a, Expr::Path(_)) { Some(parse_quote!(match #recv { Some(#v) => Ok(#v), None => Err(#a) })) } else { None } }
            ("or", 1) => { let a = &m.args[0]; Some(parse_quote!(match #recv { Some(#v) => Some(#v), None => #a })) }
            ("unwrap_or_default", 0) => Some(parse_quote!(#recv.hx_unwrap_or_default())),
            ("flatten", 0) => Some(parse_quote!(match #recv { Some(Some(#v)) => Some(#v), _ => None })),
            ("then_some", 1) => { let a = &m.args[0]; Some(parse_quote!(if #recv { Some(#a) } else { None })) }
            ("then", 1) | ("or_else", 1) | ("ok_or_else", 1) | ("unwrap_or_else", 1) => {
                // adapters over a closure without parameters: bool::then, Option::{or_else, ok_or_else, unwrap_or_else}
                match &m.args[0] {
                    Expr::Closure(cl) if cl.inputs.is_empty() => {
                        if has_control_escape(&cl.body) { self.cx.err(format!("outside dialect: `return`/`?` inside an adapter closure in {}", self.fn_name)); return; }
                        let body = &cl.body;
                        match name.as_str() {
                            "then" => Some(parse_quote!(if #recv { Some(#body) } else { None })),
                            "or_else" => Some(parse_quote!(match #recv { Some(#v) => Some(#v), None => #body })),
                            "ok_or_else" => Some(parse_quote!(match #recv { Some(#v) => Ok(#v), None => Err(#body) })),
                            _ => Some(parse_quote!(match #recv { Some(#v) => #v, None => #body })),
                        }
                    }
                    _ => None,
                }
            }
            ("map_or", 2) => {
                let d = &m.args[0];
                match &m.args[1] {
                    Expr::Closure(cl) => {
                        if has_control_escape(&cl.body) { self.cx.err(format!("outside dialect: `return`/`?` inside an adapter closure in {}", self.fn_name)); return; }
                        match closure_single_pat(cl) { Some(p) => { let body = &cl.body; Some(parse_quote!(match #recv { Some(#p) => #body, None => #d })) } None => None }
                    }
                    // a function path applied to the bound value: `ToOwned::to_owned` / `Clone::clone` is a clone of it
                    Expr::Path(fp) => { let last = fp.path.segments.last().map(|s| s.ident.to_string()).unwrap_or_default();
                        if last == "to_owned" || last == "clone" { Some(parse_quote!(match #recv { Some(#v) => #v.clone(), None => #d })) } else { Some(parse_quote!(match #recv { Some(#v) => #fp(#v), None => #d })) } }
                    _ => None,
                }
            }
            ("zip", 1) => { let a = &m.args[0]; Some(parse_quote!(match (#recv, #a) { (Some(hx_a), Some(hx_b)) => Some((hx_a, hx_b)), _ => None })) }
            ("map", 1) | ("and_then", 1) | ("filter", 1) | ("is_some_and", 1) | ("is_none_or", 1) | ("map_err", 1) | ("map__hxres", 1) | ("and_then__hxres", 1) => {
                let a = &m.args[0];
                // the function applied to the bound value
                let (pat, app): (syn::Pat, Option<Expr>) = match a {
                    Expr::Closure(cl) => {
                        if has_control_escape(&cl.body) { self.cx.err(format!("outside dialect: `return`/`?` inside an adapter closure in {}", self.fn_name)); return; }
                        match closure_single_pat(cl) { Some(p) => (p, Some((*cl.body).clone())), None => return }
                    }
                    Expr::Path(p) => {
                        let key = nospace(&p.to_token_stream().to_string());
                        if key == "Ok" && name == "map" { // future.map(Ok): handled as F2 below
                            return;
                        }
                        let pat: syn::Pat = parse_quote!(#v);
                        let app: Expr = if key == "Into::into" { parse_quote!(#v.into()) } else if key == "ToOwned::to_owned" { parse_quote!(#v.clone()) }
                            else if key == "Result::ok" { parse_quote!(match #v { Ok(hx_o) => Some(hx_o), Err(_) => None }) } else { parse_quote!(#p(#v)) };
                        (pat, Some(app))
                    }
                    _ => return,
                };
                let app = app.unwrap();
                // C1r: the receiver is a Result when it was just made by `ok_or` / `ok_or_else` / `map_err`, or when the adapter chain is the
                // tail expression of a function that returns a Result (emit_fn marks those `__hxres`)
                let recv_is_result = name.ends_with("__hxres") || matches!(&recv, Expr::MethodCall(r) if matches!(r.method.to_string().as_str(), "ok_or" | "ok_or_else" | "map_err"))
                    || matches!(&recv, Expr::Match(mm) if { let t = nospace(&mm.to_token_stream().to_string()); t.contains("=>Ok(") && t.contains("=>Err(") });
                let name = name.trim_end_matches("__hxres").to_string();
                if recv_is_result && (name == "map" || name == "and_then") {
                    self.cx.fire("C1r");
                    let n: Expr = if name == "map" { parse_quote!(match #recv { Ok(#pat) => Ok(#app), Err(hx_e) => Err(hx_e) }) } else { parse_quote!(match #recv { Ok(#pat) => #app, Err(hx_e) => Err(hx_e) }) };
                    *e = n; self.cx.fire("C1"); return;
                }
                match name.as_str() {
                    "map" => Some(parse_quote!(match #recv { Some(#pat) => Some(#app), None => None })),
                    "and_then" => Some(parse_quote!(match #recv { Some(#pat) => #app, None => None })),
                    "is_some_and" => Some(parse_quote!(match #recv { Some(#pat) => #app, None => false })),
                    "is_none_or" => Some(parse_quote!(match #recv { Some(#pat) => #app, None => true })),
                    "map_err" => Some(parse_quote!(match #recv { Ok(hx_o) => Ok(hx_o), Err(#pat) => Err(#app) })),
                    "filter" => {
                        // Option::filter passes `&value`
                        let app2: Expr = match a { Expr::Path(p) => parse_quote!(#p(&#v)), _ => { let p = &pat; parse_quote!({ let #p = &#v; #app }) } };
                        Some(parse_quote!(match #recv { Some(#v) => if #app2 { Some(#v) } else { None }, None => None }))
                    }
                    _ => None,
                }
            }
            _ => None,
        };
        if let Some(n) = new { *e = n; self.cx.fire("C1"); }
    }
}

impl<'c> VisitMut for Rw<'c> {
    fn visit_block_mut(&mut self, b: &mut syn::Block) {
        // D1: drop log statements and debug assertions
        // G6 (let-bound form): `let g = <..>.lock().await;` followed, in the same block and before an explicit `drop(g)`, by an await
        if !self.cx.unit.guards.is_empty() {
            let guards = self.cx.unit.guards.clone();
            fn awaits_stmt(st: &Stmt) -> bool { struct A(bool); impl<'b> Visit<'b> for A { fn visit_expr_await(&mut self, _: &'b syn::ExprAwait) { self.0 = true; } fn visit_expr_closure(&mut self, _: &'b syn::ExprClosure) {} fn visit_expr_async(&mut self, _: &'b syn::ExprAsync) {} } let mut a = A(false); a.visit_stmt(st); a.0 }
            let n = b.stmts.len();
            for i in 0..n {
                let (name, is_guard) = match &b.stmts[i] { Stmt::Local(l) => { let nm = match &l.pat { syn::Pat::Ident(pi) => Some(pi.ident.to_string()), syn::Pat::Type(pt) => if let syn::Pat::Ident(pi) = &*pt.pat { Some(pi.ident.to_string()) } else { None }, _ => None };
                        let g = l.init.as_ref().map(|init| { let mut x: &Expr = &init.expr; if let Expr::Await(a) = x { x = &a.base; } matches!(x, Expr::MethodCall(m) if guards.contains(&m.method.to_string())) }).unwrap_or(false); (nm, g) } _ => (None, false) };
                if !is_guard { continue; }
                let Some(name) = name else { continue; };
                let mut held_across = false;
                for j in i + 1..n { let txt = nospace(&b.stmts[j].to_token_stream().to_string()); if txt.starts_with(&format!("drop({})", name)) { break; } if awaits_stmt(&b.stmts[j]) { held_across = true; break; } }
                if held_across { if let Stmt::Local(l) = &mut b.stmts[i] { if let Some(init) = &mut l.init { let x = (*init.expr).clone(); if !nospace(&x.to_token_stream().to_string()).starts_with("hx_guard_held_across_await(") { init.expr = Box::new(parse_quote!(hx_guard_held_across_await(#x))); self.cx.fire("G6"); self.g6_sites += 1; } } } }
            }
        }
        let mut kept0: Vec<Stmt> = vec![];
        for st in std::mem::take(&mut b.stmts) {
            let mac = match &st { Stmt::Macro(m) if is_dropped_macro(&m.mac) => Some(m.mac.clone()), Stmt::Expr(Expr::Macro(m), _) if is_dropped_macro(&m.mac) => Some(m.mac.clone()), _ => None };
            match mac {
                None => kept0.push(st),
                Some(m) => {
                    self.cx.fire("D1");
                    match impure_log_args(&m) {
                        Ok(args) => for a in args { self.cx.fire("D1x"); kept0.push(parse_quote!(let _ = #a;)); },
                        Err(what) => self.cx.err(format!("outside dialect: {} of a dropped log statement in {} may have an effect", what, self.fn_name)),
                    }
                }
            }
        }
        b.stmts = kept0;
        // D3 on statements
        let feats = self.cx.unit.features.clone();
        let mut kept = vec![];
        for st in std::mem::take(&mut b.stmts) {
            let attrs: Vec<syn::Attribute> = match &st { Stmt::Local(l) => l.attrs.clone(), Stmt::Expr(e, _) => expr_attrs(e), Stmt::Macro(m) => m.attrs.clone(), _ => vec![] };
            if crate::attrs_enabled(&attrs, &feats, self.cx) { kept.push(st); }
        }
        b.stmts = kept;
        for st in b.stmts.iter_mut() {
            if let Stmt::Macro(sm) = st {
                if is_select(&sm.mac) { if let Some(e) = self.select_to_match(&sm.mac) { *st = Stmt::Expr(e, sm.semi_token); } }
                else if is_panic(&sm.mac) { self.cx.fire("M1"); if sm.semi_token.is_some() { let e: Expr = parse_quote!(vpanic::<()>()); *st = Stmt::Expr(e, Some(Default::default())); } else { let e: Expr = parse_quote!(vpanic()); *st = Stmt::Expr(e, None); } }
                else { self.cx.err(format!("outside dialect: macro `{}` in {}", nospace(&sm.mac.path.to_token_stream().to_string()), self.fn_name)); }
            }
            // LE1
            if let Stmt::Local(l) = st {
                l.attrs.clear();
                // a local that is a clone of a typed place has that type (used only to type captures the spec does not name)
                // `lettype`: `let (a, mut b) = path::<T>(..)` with a configured path types a and b
                if let (syn::Pat::Tuple(pt), Some(init)) = (&l.pat, &l.init) { if let Expr::Call(c) = &*init.expr { if let Expr::Path(fp) = &*c.func {
                    let mut bare = fp.path.clone(); let mut targ: Option<String> = None;
                    if let Some(last) = bare.segments.last_mut() { if let syn::PathArguments::AngleBracketed(ab) = &last.arguments { targ = ab.args.first().map(|a| crate::util::tidy(&a.to_token_stream().to_string())); } last.arguments = syn::PathArguments::None; }
                    let key = nospace(&bare.to_token_stream().to_string());
                    for (pth, tys) in self.cx.unit.lettypes.clone() {
                        let pk = pth.split("::<").next().unwrap_or(&pth).to_string();
                        if pk == key && tys.len() == pt.elems.len() {
                            for (el, ty) in pt.elems.iter().zip(tys.iter()) { if let syn::Pat::Ident(pi) = el { let t = match &targ { Some(a) => ty.replace("$1", a), None => ty.clone() }; if !t.contains('$') { let mut ty2: syn::Type = match syn::parse_str(&t) { Ok(x) => x, Err(_) => continue }; map_type(&mut ty2, self.cx); self.local_types.insert(pi.ident.to_string(), crate::util::tidy(&ty2.to_token_stream().to_string())); } } }
                        }
                    }
                } } }
                let pat_ident: Option<syn::PatIdent> = match &l.pat { syn::Pat::Ident(pi) => Some(pi.clone()), syn::Pat::Type(pt) => if let syn::Pat::Ident(pi) = &*pt.pat { if pt.ty.to_token_stream().to_string().contains('_') { Some(pi.clone()) } else { None } } else { None }, _ => None };
                if let (Some(pi), Some(init)) = (&pat_ident, &l.init) {
                    let src: Option<String> = match &*init.expr {
                        Expr::MethodCall(m) if (m.method == "clone" || m.method == "to_owned") && m.args.is_empty() => match &*m.receiver { Expr::Path(p) => p.path.get_ident().map(|i| i.to_string()), _ => None },
                        Expr::Call(c) if c.args.len() == 1 && matches!(nospace(&c.func.to_token_stream().to_string()).as_str(), "Arc::clone" | "Weak::clone" | "std::sync::Arc::clone" | "std::sync::Weak::clone") => match &c.args[0] { Expr::Reference(r) => match &*r.expr { Expr::Path(p) => p.path.get_ident().map(|i| i.to_string()), _ => None }, _ => None },
                        _ => None,
                    };
                    if let Some(sn) = src { if let Some(t) = self.local_types.get(&sn).cloned() { self.local_types.insert(pi.ident.to_string(), t); } }
                    // a weak handle made from a typed strong one: only a marker (`?Weak<T>`, never emitted as a type) so that a capture that
                    // became weak is not mistaken for a renamed strong one (rule L1q)
                    let dsrc: Option<String> = match &*init.expr {
                        Expr::MethodCall(m) if m.method == "downgrade" && m.args.is_empty() => match &*m.receiver { Expr::Path(p) => p.path.get_ident().map(|i| i.to_string()), _ => None },
                        Expr::Call(c) if c.args.len() == 1 && nospace(&c.func.to_token_stream().to_string()).ends_with("Arc::downgrade") => match &c.args[0] { Expr::Reference(r) => match &*r.expr { Expr::Path(p) => p.path.get_ident().map(|i| i.to_string()), _ => None }, _ => None },
                        _ => None };
                    if let Some(sn) = dsrc { if let Some(t) = self.local_types.get(&sn).cloned() {
                        let marker = format!("?Weak<{}>", t.trim_start_matches('?'));
                        // `lettype ?Weak<T<$1>> => W<$1>`: the unit has a stand-in for the weak handle of that type
                        let mk = nospace(&marker); let mut concrete: Option<String> = None;
                        for (pth, tys) in self.cx.unit.lettypes.iter() { if pth.starts_with("?Weak<") && tys.len() == 1 { if let Some((pre, suf)) = pth.split_once("$1") { if mk.len() >= pre.len() + suf.len() && mk.starts_with(pre) && mk.ends_with(suf) { concrete = Some(tys[0].replace("$1", &mk[pre.len()..mk.len() - suf.len()])); } } } }
                        self.local_types.insert(pi.ident.to_string(), concrete.unwrap_or(marker));
                    } }
                    // `lettype path => W<$arg>`: `let x = path(y)` / `path(y.clone())` with y of known type T gives x the type W<T>
                    if let Expr::Call(c) = &*init.expr { if c.args.len() == 1 {
                        let key = nospace(&c.func.to_token_stream().to_string());
                        let an: Option<String> = match &c.args[0] { Expr::Path(p) => p.path.get_ident().map(|i| i.to_string()), Expr::MethodCall(m) if m.method == "clone" && m.args.is_empty() => match &*m.receiver { Expr::Path(p) => p.path.get_ident().map(|i| i.to_string()), _ => None }, _ => None };
                        if let Some(at) = an.and_then(|a| self.local_types.get(&a).cloned()).filter(|t| !t.starts_with('?')) {
                            for (pth, tys) in self.cx.unit.lettypes.clone() { if pth == key && tys.len() == 1 && tys[0].contains("$arg") { self.local_types.insert(pi.ident.to_string(), tys[0].replace("$arg", &at)); } }
                        }
                    } }
                    let it = nospace(&init.expr.to_token_stream().to_string());
                    if it.starts_with("Arc::new(AtomicBool::new(") || it.starts_with("AtomicBool::new(") { self.local_types.insert(pi.ident.to_string(), "AtomicBoolV".to_string()); }
                    if it == "true" || it == "false" { self.local_types.insert(pi.ident.to_string(), "bool".to_string()); }
                }
                if let syn::Pat::Type(pt) = &l.pat { // drop partially inferred annotations such as `Weak<_>`
                    if pt.ty.to_token_stream().to_string().contains('_') { l.pat = (*pt.pat).clone(); }
                    else if let syn::Pat::Ident(pi) = &*pt.pat { let mut t = (*pt.ty).clone(); map_type(&mut t, self.cx); self.local_types.insert(pi.ident.to_string(), crate::util::tidy(&t.to_token_stream().to_string())); }
                }
                if let Some(init) = &mut l.init { if let Some((_, div)) = init.diverge.take() {
                    let pat = l.pat.clone(); let e = init.expr.clone();
                    let mut names = BTreeSet::new(); Binders(&mut names).visit_pat(&pat);
                    if names.len() != 1 { self.cx.err(format!("outside dialect: let-else with {} binders in {}", names.len(), self.fn_name)); }
                    else { let b = ident(names.iter().next().unwrap()); self.cx.fire("LE1");
                        // (a binder the pattern declares `mut` stays mutable outside the match)
                        let is_mut = format!(" {} ", pat.to_token_stream().to_string().replace('(', " ( ").replace(')', " ) ")).contains(&format!(" mut {} ", b));
                        if is_mut { *st = parse_quote!(let mut #b = match #e { #pat => #b, _ => #div };); } else { *st = parse_quote!(let #b = match #e { #pat => #b, _ => #div };); } }
                } }
            }
        }
        visit_mut::visit_block_mut(self, b);
    }

    fn visit_type_mut(&mut self, t: &mut syn::Type) { map_type(t, self.cx); }

    fn visit_expr_mut(&mut self, e: &mut Expr) {
        // ---------------- pre-order ----------------
        // `name/N` in the unit file: a call of `name` with another number of arguments is some other function: hide it from the
        // name-based rules (A1, A1b, G1) for this visit by renaming it to a private alias and back afterwards
        // (the emitter strips the `hx_other__` prefix again when it prints the line)
        if let Some(n) = call_last_ident(e) { if let Some(want) = self.cx.unit.arity.get(&n).cloned() {
            let have = match e { Expr::MethodCall(m) => Some(m.args.len()), _ => None };
            if let Some(h) = have { if h != want { let alias = format!("hx_other__{}", n); rename_call(e, &alias); self.cx.fire("N2"); } }
        } }
        // A1n: `now_or_never` applied to the un-awaited call of an eager (async) function polls that call's future ONCE: the call is named
        // as a future value (`m__fut`, whose model says what one poll may already have done), never run to completion
        {
            let inner: Option<&mut Expr> = match e {
                Expr::MethodCall(m) if m.method == "now_or_never" && m.args.is_empty() => Some(&mut *m.receiver),
                Expr::Call(c) if c.args.len() == 1 && nospace(&c.func.to_token_stream().to_string()).ends_with("FutureExt::now_or_never") => c.args.first_mut(),
                _ => None,
            };
            if let Some(x) = inner {
                if let Some(n) = call_last_ident(x) { if (self.cx.unit.eager.contains(&n) || self.cx.unit.eagersync.contains(&n)) && matches!(x, Expr::MethodCall(_) | Expr::Call(_)) { rename_call(x, &format!("{}__fut", n)); self.cx.fire("A1n"); } }
            }
        }
        // G6: a lock guard that is a temporary of an `if let` / `match` / `while let` scrutinee lives for the whole statement; if the
        // arms await anything the lock is held across that await. The scrutinee is routed through `hx_guard_held_across_await`,
        // whose precondition is the obligation (never satisfiable: the shape itself is the defect)
        if !self.cx.unit.guards.is_empty() {
            let guards = self.cx.unit.guards.clone();
            let has_guard = |x: &Expr| -> bool { struct F<'a>(&'a BTreeSet<String>, bool); impl<'a, 'b> Visit<'b> for F<'a> { fn visit_expr_method_call(&mut self, m: &'b syn::ExprMethodCall) { if self.0.contains(&m.method.to_string()) { self.1 = true; } syn::visit::visit_expr_method_call(self, m); } fn visit_expr_closure(&mut self, _: &'b syn::ExprClosure) {} fn visit_expr_async(&mut self, _: &'b syn::ExprAsync) {} } let mut f = F(&guards, false); f.visit_expr(x); f.1 };
            fn awaits_block(b: &syn::Block) -> bool { struct A(bool); impl<'b> Visit<'b> for A { fn visit_expr_await(&mut self, _: &'b syn::ExprAwait) { self.0 = true; } fn visit_expr_closure(&mut self, _: &'b syn::ExprClosure) {} fn visit_expr_async(&mut self, _: &'b syn::ExprAsync) {} } let mut a = A(false); a.visit_block(b); a.0 }
            fn awaits_expr(x: &Expr) -> bool { struct A(bool); impl<'b> Visit<'b> for A { fn visit_expr_await(&mut self, _: &'b syn::ExprAwait) { self.0 = true; } fn visit_expr_closure(&mut self, _: &'b syn::ExprClosure) {} fn visit_expr_async(&mut self, _: &'b syn::ExprAsync) {} } let mut a = A(false); a.visit_expr(x); a.0 }
            let already = |x: &Expr| nospace(&x.to_token_stream().to_string()).starts_with("hx_guard_held_across_await(");
            match e {
                Expr::If(i) => { if let Expr::Let(l) = &mut *i.cond { if has_guard(&l.expr) && !already(&l.expr) && (awaits_block(&i.then_branch) || i.else_branch.as_ref().map(|(_, b)| awaits_expr(b)).unwrap_or(false)) { let x = (*l.expr).clone(); l.expr = Box::new(parse_quote!(hx_guard_held_across_await(#x))); self.cx.fire("G6"); self.g6_sites += 1; } } }
                Expr::While(wl) => { if let Expr::Let(l) = &mut *wl.cond { if has_guard(&l.expr) && !already(&l.expr) && awaits_block(&wl.body) { let x = (*l.expr).clone(); l.expr = Box::new(parse_quote!(hx_guard_held_across_await(#x))); self.cx.fire("G6"); self.g6_sites += 1; } } }
                Expr::Match(m) => { if has_guard(&m.expr) && !already(&m.expr) && m.arms.iter().any(|a| awaits_expr(&a.body)) { let x = (*m.expr).clone(); m.expr = Box::new(parse_quote!(hx_guard_held_across_await(#x))); self.cx.fire("G6"); self.g6_sites += 1; } }
                _ => {}
            }
        }
        if let Expr::Macro(m) = e {
            if is_select(&m.mac) { if let Some(n) = self.select_to_match(&m.mac) { *e = n; } }
            else if is_panic(&m.mac) { self.cx.fire("M1"); *e = if self.cx.unit.panic_forbidden { parse_quote!(vpanic_forbidden()) } else { parse_quote!(vpanic()) }; }
            else if is_pin_macro(&m.mac) { self.cx.fire("D4"); if let Ok(inner) = syn::parse2::<Expr>(m.mac.tokens.clone()) { *e = inner; } }
            else if is_dropped_macro(&m.mac) {
                self.cx.fire("D1");
                match impure_log_args(&m.mac) {
                    Ok(args) if args.is_empty() => { *e = parse_quote!(()); }
                    Ok(args) => { self.cx.fire("D1x"); *e = parse_quote!({ #(let _ = #args;)* }); self.visit_expr_mut(e); return; }
                    Err(what) => { self.cx.err(format!("outside dialect: {} of a dropped log statement in {} may have an effect", what, self.fn_name)); *e = parse_quote!(()); }
                }
            }
            else if m.mac.path.is_ident("matches") {
                // M2: matches!(e, pat [if guard]) by its definition
                struct MA { e: Expr, arm: TokenStream }
                impl syn::parse::Parse for MA { fn parse(i: syn::parse::ParseStream) -> syn::Result<Self> { let e: Expr = i.parse()?; let _: syn::Token![,] = i.parse()?; let arm: TokenStream = i.parse()?; Ok(MA { e, arm }) } }
                match syn::parse2::<MA>(m.mac.tokens.clone()) {
                    Ok(ma) => { let (x, arm) = (ma.e, ma.arm); let arm: TokenStream = { let mut v: Vec<TokenTree> = arm.into_iter().collect(); if matches!(v.last(), Some(TokenTree::Punct(p)) if p.as_char() == ',') { v.pop(); } v.into_iter().collect() };
                        match syn::parse2::<Expr>(quote!(match #x { #arm => true, _ => false })) { Ok(n) => { self.cx.fire("M2"); *e = n; } Err(_) => self.cx.err(format!("outside dialect: macro `matches` in {}", self.fn_name)) } }
                    Err(_) => self.cx.err(format!("outside dialect: macro `matches` in {}", self.fn_name)),
                }
            }
            else if m.mac.path.is_ident("format") {
                // M4: `format!(..)` with arguments that only read is some string; nothing is known about its text (error messages)
                match impure_log_args(&m.mac) { Ok(v) if v.is_empty() => { self.cx.fire("M4"); *e = parse_quote!(hx_format()); } _ => self.cx.err(format!("outside dialect: macro `format` with an argument that does more than read in {}", self.fn_name)) }
            }
            else if nospace(&m.mac.path.to_token_stream().to_string()) == "log::log_enabled" { self.cx.fire("M4"); *e = parse_quote!(hx_log_enabled()); /* whether a log level is on: some bool, nothing known, nothing done */ }
            else if m.mac.path.is_ident("vec") { self.cx.fire("M3"); /* `vec![..]` is part of the verifier's dialect: its element expressions are left as they are */ }
            else { self.cx.err(format!("outside dialect: macro `{}` in {}", nospace(&m.mac.path.to_token_stream().to_string()), self.fn_name)); }
        }
        // W1
        if let Expr::While(w) = e {
            if let Expr::Let(l) = &*w.cond {
                let pat = &l.pat; let cond = &l.expr; let body = &w.body; let label = &w.label;
                self.cx.fire("W1");
                *e = parse_quote!(#label loop { match #cond { #pat => #body, _ => break } });
            }
        }
        // A1c: `fut.map(|p| body).await` (FutureExt::map) is `{ let p = fut.await; body }`
        if let Expr::Await(a) = e {
            if let Expr::MethodCall(m) = &*a.base { if m.method == "map" && m.args.len() == 1 { if let Expr::Closure(cl) = &m.args[0] {
                let recv_is_eager = call_last_ident(&m.receiver).map(|n| self.cx.unit.eager.contains(&n)).unwrap_or(false);
                if recv_is_eager && !has_control_escape(&cl.body) { if let Some(p) = closure_single_pat(cl) {
                    let recv = &m.receiver; let body = &cl.body; let at = &a.await_token; let dot = &a.dot_token;
                    let p: syn::Pat = if matches!(p, syn::Pat::Wild(_)) { parse_quote!(_hx_ignored) } else { p };
                    self.cx.fire("A1c");
                    *e = parse_quote!({ let #p = #recv #dot #at; #body });
                } }
            } } }
        }
        // A1: `callee(..).await` with an eager callee -> mark the call
        if let Expr::Await(a) = e { self.apply_ufcs(&mut a.base); }
        if let Expr::Await(a) = e {
            let eager = call_last_ident(&a.base).map(|n| self.cx.unit.eager.contains(&n)).unwrap_or(false);
            if eager { let mut base = (*a.base).clone(); let n = call_last_ident(&base).unwrap(); rename_call(&mut base, &format!("{}__hx_eager", n)); self.cx.fire("A1"); *e = base; }
        }
        // D4: Box::pin(x) -> x ; x.fuse() -> x ; Box::new(x) stays (T1 handles it through the path map)
        loop {
            match e {
                Expr::Call(c) if c.args.len() == 1 && matches!(nospace(&c.func.to_token_stream().to_string()).as_str(), "Box::pin" | "Pin::new" | "std::pin::Pin::new" | "pin::Pin::new") => { let inner = c.args[0].clone(); self.cx.fire("D4"); *e = inner; }
                Expr::MethodCall(m) if (m.method == "fuse" || m.method == "boxed" || m.method == "boxed_local") && m.args.is_empty() => { let inner = (*m.receiver).clone(); self.cx.fire("D4"); *e = inner; }
                _ => break,
            }
        }
        self.apply_ufcs(e);
        // statics and other expression-level path rules
        if let Expr::Path(p) = e {
            let key = nospace(&p.to_token_stream().to_string());
            for (a, b) in self.cx.unit.exprs.clone() { if a == key { match syn::parse_str::<Expr>(&b) { Ok(n) => { *e = n; self.cx.fire("T2"); } Err(er) => self.cx.err(format!("unit file: expr replacement `{}`: {}", b, er)) } break; } }
        }
        // T1: UFCS forms of Arc/Weak
        if let Expr::Call(c) = e {
            let f = nospace(&c.func.to_token_stream().to_string());
            if c.args.len() == 1 && matches!(f.as_str(), "Arc::downgrade" | "Arc::clone" | "Weak::clone" | "std::sync::Weak::clone" | "std::sync::Arc::clone" | "std::sync::Arc::downgrade") {
                let inner = match &c.args[0] { Expr::Reference(r) => (*r.expr).clone(), other => other.clone() };
                let m = ident(if f.ends_with("downgrade") { "downgrade" } else { "clone" });
                self.cx.fire("T1"); *e = parse_quote!(#inner.#m());
            }
        }
        // T1: dyn_clone::clone_box(&*boxed) is the clone of the boxed closure object
        if let Expr::Call(c) = e {
            if c.args.len() == 1 && nospace(&c.func.to_token_stream().to_string()) == "dyn_clone::clone_box" {
                let mut inner = c.args[0].clone();
                if let Expr::Reference(r) = &inner { inner = (*r.expr).clone(); }
                if let Expr::Unary(u) = &inner { if matches!(u.op, syn::UnOp::Deref(_)) { inner = (*u.expr).clone(); } }
                self.cx.fire("T1"); *e = parse_quote!(#inner.clone());
            }
        }
        // `on x m => n`: method m on the local x is the traced variant n
        if let Expr::MethodCall(m) = e { if let Expr::Path(p) = &*m.receiver { if let Some(id) = p.path.get_ident() { let (rn, mn) = (id.to_string(), m.method.to_string()); for (a, b, c) in self.cx.unit.onrecv.clone() { if a == rn && b == mn { m.method = syn::Ident::new(&c, m.method.span()); } } } } }
        // I1: `.into()` on a parameter declared `impl Into<T>` (extracted as `T`)
        if let Expr::MethodCall(m) = e { if m.method == "into" && m.args.is_empty() { if let Expr::Path(p) = &*m.receiver { if let Some(id) = p.path.get_ident() { if self.into_params.contains(&id.to_string()) { let r = (*m.receiver).clone(); self.cx.fire("I1"); *e = r; } } } } }
        // T3: `m.entry(k).or_default().push(v)` -> `m.push_at(k, v)`
        if let Expr::MethodCall(m) = e {
            if m.method == "push" && m.args.len() == 1 {
                if let Expr::MethodCall(od) = &*m.receiver { if od.method == "or_default" && od.args.is_empty() {
                    if let Expr::MethodCall(en) = &*od.receiver { if en.method == "entry" && en.args.len() == 1 {
                        let recv = &en.receiver; let k = &en.args[0]; let v = &m.args[0];
                        self.cx.fire("T3"); *e = parse_quote!(#recv.push_at(#k, #v));
                    } }
                } }
            }
        }
        // T3: `m.entry(k).or_insert(v)` / `.or_insert_with(|| v)` -> `m.entry_or_insert(k, v)` (insert only if the key is vacant)
        if let Expr::MethodCall(m) = e {
            if (m.method == "or_insert" || m.method == "or_insert_with") && m.args.len() == 1 {
                if let Expr::MethodCall(en) = &*m.receiver { if en.method == "entry" && en.args.len() == 1 {
                    let recv = &en.receiver; let k = &en.args[0];
                    let v: Option<Expr> = if m.method == "or_insert" { Some(m.args[0].clone()) } else { match &m.args[0] { Expr::Closure(cl) if cl.inputs.is_empty() && !has_control_escape(&cl.body) => Some((*cl.body).clone()), _ => None } };
                    if let Some(v) = v { self.cx.fire("T3"); *e = parse_quote!(#recv.entry_or_insert(#k, #v)); }
                } }
            }
        }
        // T3: `m.values().filter_map(WeakX::upgrade).collect::<Vec<_>>()` -> `m.collect_upgraded()` ; `m.retain(|_, v| v.upgrade().is_some())` -> `m.retain_upgradable()`
        if let Expr::MethodCall(m) = e {
            if m.method == "collect" && m.args.is_empty() {
                if let Expr::MethodCall(fm) = &*m.receiver { if fm.method == "filter_map" && fm.args.len() == 1 && nospace(&fm.args[0].to_token_stream().to_string()).ends_with("::upgrade") {
                    if let Expr::MethodCall(vs) = &*fm.receiver { if vs.method == "values" && vs.args.is_empty() { let recv = &vs.receiver; self.cx.fire("T3"); *e = parse_quote!(#recv.collect_upgraded()); } }
                } }
            }
        }
        if let Expr::MethodCall(m) = e {
            if m.method == "retain" && m.args.len() == 1 {
                let a = nospace(&m.args[0].to_token_stream().to_string());
                // `|<unused key>, v| v.upgrade().is_some()`: the predicate looks at the value only, and only at whether it upgrades
                let shape = { let mut ok = false; if let Expr::Closure(cl) = &m.args[0] { if cl.inputs.len() == 2 {
                        let k = nospace(&cl.inputs[0].to_token_stream().to_string()); let v = nospace(&cl.inputs[1].to_token_stream().to_string());
                        let body = nospace(&cl.body.to_token_stream().to_string());
                        ok = k.starts_with('_') && body == format!("{}.upgrade().is_some()", v);
                    } } ok };
                if shape || (a.starts_with("|_,") && a.ends_with(".upgrade().is_some()")) { let recv = &m.receiver; self.cx.fire("T3"); *e = parse_quote!(#recv.retain_upgradable()); }
            }
        }
        // T3: `for x in &v` -> `for x in v.iter()`
        if let Expr::ForLoop(fl) = e { if let Expr::Reference(r) = &*fl.expr { if r.mutability.is_none() { let inner = &r.expr; let it: Expr = parse_quote!(#inner.iter()); fl.expr = Box::new(it); self.cx.fire("T3"); } } }
        // T3: `for x in v.drain(..) { B }` -> `loop { match v.drain_next() { Some(x) => B, None => break } }` (B without break/continue/return)
        //     `for p in it.filter_map(|x| F) { B }` -> `for x in it { match F { Some(p) => B, None => {} } }`
        if let Expr::ForLoop(fl) = e {
            let mut done = false;
            if let Expr::MethodCall(m) = &*fl.expr {
                if m.method == "drain" && m.args.len() == 1 && nospace(&m.args[0].to_token_stream().to_string()) == ".." {
                    if block_escapes(&fl.body) { self.cx.err(format!("outside dialect: break/continue/return inside a drain loop in {}", self.fn_name)); }
                    else { let recv = &m.receiver; let pat = &fl.pat; let body = &fl.body; let label = &fl.label; self.cx.fire("T3"); *e = parse_quote!(#label loop { match #recv.drain_next() { Some(#pat) => #body, None => break } }); done = true; }
                }
            }
            if !done { if let Expr::ForLoop(fl) = e { if let Expr::MethodCall(m) = &*fl.expr {
                if m.method == "filter_map" && m.args.len() == 1 { if let Expr::Closure(cl) = &m.args[0] { if let Some(xp) = closure_single_pat(cl) {
                    let it = &m.receiver; let f = &cl.body; let pat = &fl.pat; let body = &fl.body; let label = &fl.label;
                    self.cx.fire("C1"); *e = parse_quote!(#label for #xp in #it { match #f { Some(#pat) => #body, None => {} } });
                } } }
            } } }
        }
        // M1: `std::panic::resume_unwind(..)` / `panic_any(..)` panic
        if let Expr::Call(c) = e { let f = nospace(&c.func.to_token_stream().to_string()); if matches!(f.as_str(), "std::panic::resume_unwind" | "panic::resume_unwind" | "resume_unwind" | "std::panic::panic_any" | "panic_any") { self.cx.fire("M1"); *e = if self.cx.unit.panic_forbidden { parse_quote!(vpanic_forbidden()) } else { parse_quote!(vpanic()) }; return; } }
        // T1: `Arc::new(AtomicBool::new(v))` is the shared atomic handle itself
        if let Expr::Call(c) = e { let f = nospace(&c.func.to_token_stream().to_string()); if c.args.len() == 1 && (f == "Arc::new" || f == "std::sync::Arc::new") { if let Expr::Call(inner) = &c.args[0] { let g = nospace(&inner.func.to_token_stream().to_string()); if g.ends_with("AtomicBool::new") { let i = c.args[0].clone(); self.cx.fire("T1"); *e = i; } } } }
        // D5: `drop(e)` / `std::mem::drop(e)` ends the value's life here
        if let Expr::Call(c) = e { let f = nospace(&c.func.to_token_stream().to_string()); if c.args.len() == 1 && matches!(f.as_str(), "drop" | "std::mem::drop" | "mem::drop") { let a = c.args[0].clone(); self.cx.fire("D5");
            // D5x: dropping something whose drop the model knows an effect of (the receiving end of the mailbox: the queue is closed)
            let txt = nospace(&a.to_token_stream().to_string());
            let fx = self.cx.unit.dropfx.iter().find(|(n, _)| txt == *n || txt.ends_with(&format!(".{}", n)) || txt.ends_with(&format!("_{}", n))).map(|(_, f)| f.clone());
            match fx { Some(f) => { let fi = ident(&f); self.cx.fire("D5x"); *e = parse_quote!(#fi(#a, Tracked(w))); } None => { *e = parse_quote!(vdrop(#a)); } } } }
        // T4: to_owned on Clone types is clone
        if let Expr::MethodCall(m) = e { if m.method == "to_owned" && m.args.is_empty() { m.method = syn::Ident::new("clone", m.method.span()); self.cx.fire("T4"); } }
        // F2: future.map(Ok) / future.map(|_| ())
        if let Expr::MethodCall(m) = e {
            if m.method == "map" && m.args.len() == 1 {
                let a = nospace(&m.args[0].to_token_stream().to_string());
                if a == "Ok" { m.method = syn::Ident::new("map_ok", m.method.span()); m.args.clear(); self.cx.fire("F2"); }
                else if a == "|_|()" { m.method = syn::Ident::new("map_unit", m.method.span()); m.args.clear(); self.cx.fire("F2"); }
            }
        }
        // C1
        self.inline_adapter(e);
        // L1 / A3: a closure literal or async block used as a value becomes a code object built from what it captures
        let lift = match e { Expr::Closure(_) => true, Expr::Async(_) => true, _ => false };
        if lift {
            let k = self.closures; self.closures += 1;
            let (caps, is_move, inputs, body, is_async, line) = match e {
                Expr::Closure(c) => {
                    let body: syn::Block = match &*c.body { Expr::Block(b) => b.block.clone(), other => parse_quote!({ #other }) };
                    (captures_of_closure(c, &self.binders), c.capture.is_some(), c.inputs.iter().cloned().collect::<Vec<_>>(), body, false, c.or1_token.span.start().line)
                }
                Expr::Async(a) => (captures_of_block(&a.block, &self.binders), a.capture.is_some(), vec![], a.block.clone(), true, a.async_token.span.start().line),
                _ => unreachable!(),
            };
            let name = format!("{}__{}{}", self.lift_prefix, if is_async { "async" } else { "closure" }, k);
            let ctor = ident(&format!("{}__new", name));
            // when places of `self` are captured disjointly, a bare `self` seen in macro tokens is not a capture of its own
            // (a `self` among the captures is `self` as a whole: a method call on it, or `self` passed on; the places `self.x` it is
            // captured along with are part of it)
            let caps: Vec<String> = if caps.iter().any(|c| c == "self") { caps.into_iter().filter(|c| !c.starts_with("self.")).collect() } else { caps };
            // L1o: a constructor whose contract signature names its parameters takes the captures in THAT order (the order in which the
            // body happens to mention them first is incidental)
            let caps: Vec<String> = match self.ctor_param_names.get(&format!("{}__new", name)) {
                Some(order) => { let norm = |c: &String| if c == "self" { "this".to_string() } else { c.replace("self.", "self_") };
                    if caps.iter().all(|c| order.contains(&norm(c))) { let mut v = caps.clone(); v.sort_by_key(|c| order.iter().position(|o| *o == norm(c)).unwrap_or(usize::MAX)); if v != caps { self.cx.fire("L1o"); } v } else { caps } }
                None => caps,
            };
            let args: Vec<Expr> = caps.iter().map(|c| {
                let place: Expr = if let Some(f) = c.strip_prefix("self.") { let fi = ident(f); if self.self_to_this { parse_quote!(this.#fi) } else { parse_quote!(self.#fi) } }
                                  else { let id = ident(if self.self_to_this && c == "self" { "this" } else { c }); parse_quote!(#id) };
                if is_move { place } else { parse_quote!(&#place) } }).collect();
            self.cx.fire(if is_async { "A3" } else { "L1" });
            let cap_types: Vec<Option<String>> = caps.iter().map(|c| self.local_types.get(c).cloned()).collect();
            self.lifted_closures.push(LiftedClosure { cap_types, k, name, captures: caps, is_move, inputs, body, is_async_block: is_async, line });
            let cname = ctor.to_string();
            let any_typed = self.lifted_closures.last().map(|l| l.captures.iter().any(|c| self.typed_caps.contains(&format!("{} {}", cname, c.replace("self.", "self_"))))).unwrap_or(false);
            if self.typed_ctors.contains(&cname) && !self.gen_idents.is_empty() {
                let gi: Vec<syn::Ident> = self.gen_idents.iter().map(|g| ident(g)).collect();
                *e = parse_quote!(#ctor::<#(#gi),*>(#(#args),*));
            } else if any_typed {
                // enclosing generics explicitly, one `_` per capture whose type stays generic
                let gi: Vec<syn::Ident> = self.gen_idents.iter().map(|g| ident(g)).collect();
                let n_generic = self.lifted_closures.last().unwrap().captures.iter().filter(|c| !self.typed_caps.contains(&format!("{} {}", cname, c.replace("self.", "self_")))).count();
                // a single renamed capture (rule L1q: one contract name missing, one capture the contract does not name) is typed under
                // its contract name by the emitter, so it is no generic hole here either
                let n_generic = {
                    let caps: Vec<String> = self.lifted_closures.last().unwrap().captures.iter().map(|c| c.replace("self.", "self_")).collect();
                    let pre = format!("{} ", cname);
                    let expected: Vec<String> = self.typed_caps.iter().filter_map(|t| t.strip_prefix(&pre).map(|x| x.to_string())).collect();
                    let missing = expected.iter().filter(|x| !caps.contains(x)).count();
                    let extra: Vec<&String> = caps.iter().filter(|c| !expected.contains(c)).collect();
                    let renamed_weak = extra.len() == 1 && self.local_types.get(extra[0]).map(|t| t.starts_with('?')).unwrap_or(false);
                    if missing == 1 && extra.len() == 1 && !renamed_weak && n_generic > 0 { n_generic - 1 } else { n_generic }
                };
                let holes: Vec<TokenStream> = (0..n_generic).map(|_| quote!(_)).collect();
                *e = parse_quote!(#ctor::<#(#gi,)* #(#holes),*>(#(#args),*));
            } else { *e = parse_quote!(#ctor(#(#args),*)); }
            return;
        }
        // F3: the verifier has no `continue` in `for` loops. At the top level of a `for` body, `let P = e else { continue; }; rest` is
        // `if let P = e { rest }`, and `if c { continue; } rest` is `if !(c) { rest }` (the same control flow, written without the jump)
        if let Expr::ForLoop(fl) = e {
            fn is_continue_block(b: &syn::Block) -> bool { b.stmts.len() == 1 && matches!(&b.stmts[0], Stmt::Expr(Expr::Continue(c), _) if c.label.is_none()) }
            fn fold(stmts: &[Stmt]) -> Vec<Stmt> {
                for (i, st) in stmts.iter().enumerate() {
                    if let Stmt::Local(l) = st { if let Some(init) = &l.init { if let Some((_, div)) = &init.diverge { if let Expr::Block(db) = &**div { if is_continue_block(&db.block) {
                        let pat = &l.pat; let ex = &init.expr; let rest = fold(&stmts[i + 1..]);
                        let mut out: Vec<Stmt> = stmts[..i].to_vec(); out.push(Stmt::Expr(parse_quote!(if let #pat = #ex { #(#rest)* }), None)); return out;
                    } } } } }
                    if let Stmt::Expr(Expr::If(ifx), _) = st { if ifx.else_branch.is_none() && is_continue_block(&ifx.then_branch) && !matches!(&*ifx.cond, Expr::Let(_)) {
                        let c = &ifx.cond; let rest = fold(&stmts[i + 1..]);
                        let mut out: Vec<Stmt> = stmts[..i].to_vec(); out.push(Stmt::Expr(parse_quote!(if !(#c) { #(#rest)* }), None)); return out;
                    } }
                }
                stmts.to_vec()
            }
            let folded = fold(&fl.body.stmts);
            if folded.len() != fl.body.stmts.len() || nospace(&quote!(#(#folded)*).to_string()) != nospace(&{ let st = &fl.body.stmts; quote!(#(#st)*) }.to_string()) { fl.body.stmts = folded; self.cx.fire("F3"); }
        }
        // for loops over an iterator: Verus names the ghost iterator `for x in hx_it: e` (the emitter turns the wrapper into that syntax)
        if let Expr::ForLoop(fl) = e { let it = &fl.expr; if !it.to_token_stream().to_string().starts_with("__hx_iter") { let w: Expr = parse_quote!(__hx_iter(#it)); fl.expr = Box::new(w); } }
        // loops: number them in source order and leave a marker for the emitter
        let is_loop = matches!(e, Expr::Loop(_) | Expr::While(_) | Expr::ForLoop(_));
        if is_loop {
            let k = self.loops; self.loops += 1;
            let lit = proc_macro2::Literal::usize_unsuffixed(k);
            let marker: Stmt = parse_quote!(__hx_loop(#lit););
            match e { Expr::Loop(l) => l.body.stmts.insert(0, marker), Expr::While(l) => l.body.stmts.insert(0, marker), Expr::ForLoop(l) => l.body.stmts.insert(0, marker), _ => {} }
        }
        // self.field -> self_field (captured place of a lifted async block)
        if self.lifted {
            if let Expr::Field(f) = e { if let Expr::Path(p) = &*f.base { if p.path.is_ident("self") { if let syn::Member::Named(n) = &f.member {
                let id = syn::Ident::new(&format!("self_{}", n), n.span()); *e = parse_quote!(#id);
            } } } }
        }
        if self.self_to_this { if let Expr::Path(p) = e { if p.path.is_ident("self") { let sp = p.path.segments[0].ident.span(); let id = syn::Ident::new("this", sp); *e = parse_quote!(#id); } } }

        // ---------------- children ----------------
        visit_mut::visit_expr_mut(self, e);

        // ---------------- post-order ----------------
        // M5: a match-arm guard that calls something with an effect on the ghost world (`Some(a) if a.running() => ..`): the verifier does not
        // track state changes made inside a guard. `P if G => A, .., Q => B` where Q is the first later arm that catches everything P matches and
        // binds nothing (`_`, `Some(_)`), with only arms about other constructors in between, is `P => if G { A } else { B }, .., Q => B`;
        // any other shape with an effectful guard is outside the dialect
        if let Expr::Match(mt) = e {
            let effectful = |g: &Expr| nospace(&g.to_token_stream().to_string()).contains("Tracked(w)");
            let n = mt.arms.len();
            let idx: Vec<usize> = (0..n).filter(|i| mt.arms[*i].guard.as_ref().map(|(_, g)| effectful(g)).unwrap_or(false)).collect();
            if !idx.is_empty() {
                // constructor name of a pattern (`Some(..)` -> Some, `None` -> None), and "matches everything P matches, binds nothing"
                fn ctor_of(p: &syn::Pat) -> Option<String> { match p { syn::Pat::TupleStruct(t) => t.path.segments.last().map(|s| s.ident.to_string()), syn::Pat::Path(pp) => pp.path.segments.last().map(|s| s.ident.to_string()), syn::Pat::Ident(pi) if pi.subpat.is_none() && pi.ident.to_string().chars().next().map(|c| c.is_uppercase()).unwrap_or(false) => Some(pi.ident.to_string()), _ => None } }
                fn subsumes(q: &syn::Pat, p: &syn::Pat) -> bool { match q { syn::Pat::Wild(_) => true, syn::Pat::TupleStruct(t) => ctor_of(q).is_some() && ctor_of(q) == ctor_of(p) && t.elems.iter().all(|e| matches!(e, syn::Pat::Wild(_))), _ => false } }
                let mut ok = true;
                let mut plan: Vec<(usize, usize)> = vec![];
                for &i in &idx {
                    let mut found: Option<usize> = None;
                    for j in i + 1..n {
                        if mt.arms[j].guard.is_none() && subsumes(&mt.arms[j].pat, &mt.arms[i].pat) { found = Some(j); break; }
                        // an arm in between must be about another constructor (it cannot catch what falls through arm i)
                        let disjoint = mt.arms[j].guard.is_none() && ctor_of(&mt.arms[j].pat).is_some() && ctor_of(&mt.arms[i].pat).is_some() && ctor_of(&mt.arms[j].pat) != ctor_of(&mt.arms[i].pat);
                        if !disjoint { break; }
                    }
                    match found { Some(j) => plan.push((i, j)), None => { ok = false; break; } }
                }
                if ok {
                    for (i, j) in plan {
                        let b = (*mt.arms[j].body).clone();
                        let arm = &mut mt.arms[i];
                        let (_, g) = arm.guard.take().unwrap();
                        let a = (*arm.body).clone();
                        arm.body = Box::new(parse_quote!(if #g { #a } else { #b }));
                        if arm.comma.is_none() { arm.comma = Some(Default::default()); }
                        self.cx.fire("M5");
                    }
                } else {
                    self.cx.err(format!("outside dialect: a match guard with an effect on the ghost world in {}", self.fn_name));
                }
            }
        }
        // N1 on expression paths
        if let Expr::Path(p) = e { if p.qself.is_none() { self.map_expr_path(&mut p.path); } }
        if let Expr::Struct(s) = e { self.map_expr_path(&mut s.path); }
        // P1: call of a local (boxed payload)
        if let Expr::Call(c) = e {
            if let Expr::Path(p) = &*c.func { if let Some(id) = p.path.get_ident() {
                let n = id.to_string();
                if self.binders.contains(&n) && n.chars().next().map(|ch| ch.is_lowercase() || ch == '_').unwrap_or(false) {
                    let args = &c.args; self.cx.fire("P1");
                    *e = parse_quote!(call_boxed(#id, #args));
                }
            } }
            if let Expr::Call(c2) = e { if let Expr::Paren(par) = &*c2.func { // (self.join_fn)()
                let inner = &par.expr; let args = &c2.args; self.cx.fire("P1"); let tail = if args.is_empty() { quote!() } else { quote!(, #args) };
                *e = parse_quote!(call_boxed_mut(&mut #inner #tail));
            } }
        }
        // G1 / A1b on calls
        let is_pure_path = if let Expr::Call(c) = e { self.cx.unit.pure_paths.contains(&nospace(&c.func.to_token_stream().to_string())) } else { false };
        if let (Some(n), false) = (call_last_ident(e), is_pure_path) {
            if let Some(base) = n.strip_suffix("__hx_eager") {
                let base = base.to_string(); rename_call(e, &base);
                if self.cx.unit.traced.contains(&base) { push_ghost(e); self.cx.fire("G1"); }
            } else if self.cx.unit.eagersync.contains(&n) {
                push_ghost(e); self.cx.fire("G1");
            } else if self.cx.unit.eager.contains(&n) {
                rename_call(e, &format!("{}__fut", n)); self.cx.fire("A1b");
            } else if self.cx.unit.traced.contains(&n) {
                push_ghost(e); self.cx.fire("G1");
            }
            // chain renames: method `b` on the result of method `a`
            if let Expr::MethodCall(m) = e {
                let mn = m.method.to_string();
                let recv_name = match &*m.receiver { Expr::MethodCall(r) => Some(r.method.to_string()), Expr::Call(_) => call_last_ident(&m.receiver), _ => None };
                if let Some(rn) = recv_name { for (a, b, c) in self.cx.unit.chains.clone() { if a == rn && b == mn { m.method = syn::Ident::new(&c, m.method.span()); if self.cx.unit.traced.contains(&c) { m.args.push(parse_quote!(Tracked(w))); self.cx.fire("G1"); } } } }
            }
            // method renames of the unit
            if let Expr::MethodCall(m) = e { let mn = m.method.to_string(); for (a, b) in self.cx.unit.methods.clone() { if a == mn { m.method = syn::Ident::new(&b, m.method.span()); } } }
        }
        // A2: await on a future value
        if let Expr::Await(a) = e {
            let base = &a.base; self.cx.fire("A2");
            // `x.await` consumes x: the binding need not be `mut` in the source even where the model's `await_` takes `&mut self` (rule A6)
            let plain = matches!(&**base, Expr::Path(p) if p.path.get_ident().map(|i| i != "self" || (self.self_by_value && !self.self_to_this)).unwrap_or(false));
            if plain { *e = parse_quote!({ let mut hx_aw = #base; hx_aw.await_(Tracked(w)) }); } else { *e = parse_quote!(#base.await_(Tracked(w))); }
        }
        // closures and async blocks that survive to this point are outside the dialect unless a later rule lifts them

    }

    fn visit_pat_mut(&mut self, p: &mut syn::Pat) {
        visit_mut::visit_pat_mut(self, p);
        match p {
            syn::Pat::TupleStruct(ts) => self.map_expr_path(&mut ts.path),
            syn::Pat::Struct(ps) => self.map_expr_path(&mut ps.path),
            syn::Pat::Path(pp) => self.map_expr_path(&mut pp.path),
            _ => {}
        }
    }
}
fn expr_attrs(e: &Expr) -> Vec<syn::Attribute> {
    match e { Expr::MethodCall(x) => x.attrs.clone(), Expr::Call(x) => x.attrs.clone(), Expr::If(x) => x.attrs.clone(), Expr::Block(x) => x.attrs.clone(), Expr::Match(x) => x.attrs.clone(), Expr::Macro(x) => x.attrs.clone(), _ => vec![] }
}
fn push_ghost(e: &mut Expr) {
    let g: Expr = parse_quote!(Tracked(w));
    match e { Expr::MethodCall(m) => m.args.push(g), Expr::Call(c) => c.args.push(g), _ => {} }
}
impl<'c> Rw<'c> {
    /// U1: configured UFCS calls become method calls
    fn apply_ufcs(&mut self, e: &mut Expr) {
        if let Expr::Call(c) = e {
            let f = nospace(&c.func.to_token_stream().to_string());
            if self.cx.unit.ufcs.contains(&f) && !c.args.is_empty() {
                let recv = c.args[0].clone(); let rest: Vec<Expr> = c.args.iter().skip(1).cloned().collect();
                let m = ident(f.rsplit("::").next().unwrap());
                self.cx.fire("U1"); *e = parse_quote!((#recv).#m(#(#rest),*));
            }
        }
    }
    fn map_expr_path(&mut self, p: &mut syn::Path) {
        // the eager marker (A1) travels on the last segment: map the path without it, then put it back
        let marked = p.segments.last().map(|s| s.ident.to_string().ends_with("__hx_eager")).unwrap_or(false);
        if marked { let l = p.segments.last_mut().unwrap(); let n = l.ident.to_string(); l.ident = syn::Ident::new(n.trim_end_matches("__hx_eager"), l.ident.span()); }
        self.map_expr_path_inner(p);
        if marked { let l = p.segments.last_mut().unwrap(); l.ident = syn::Ident::new(&format!("{}__hx_eager", l.ident), l.ident.span()); }
    }
    fn map_expr_path_inner(&mut self, p: &mut syn::Path) {
        let key = nospace(&strip_generics(p).to_token_stream().to_string());
        for (a, b) in self.cx.unit.paths.clone() {
            if a == key {
                match syn::parse_str::<syn::Path>(&b) {
                    Ok(mut np) => { // keep the turbofish of every segment (aligned from the end)
                        let on = p.segments.len(); let nn = np.segments.len();
                        for i in 0..on.min(nn) { let o = &p.segments[on - 1 - i]; let n = &mut np.segments[nn - 1 - i]; if n.arguments.is_none() { n.arguments = o.arguments.clone(); } }
                        map_path_types(&mut np, self.cx);
                        *p = np; self.cx.fire("N1"); return;
                    }
                    Err(e) => { self.cx.err(format!("unit file: path replacement `{}`: {}", b, e)); return; }
                }
            }
        }
        strip_module_prefix(p, self.cx, false);
        map_path_types(p, self.cx);
    }
}
fn strip_generics(p: &syn::Path) -> syn::Path { let mut q = p.clone(); for s in q.segments.iter_mut() { s.arguments = syn::PathArguments::None; } q }

// ------------------------------------------------------------------------------------------
// scope-aware free variables of a closure / async block (what it captures from the enclosing function)
// ------------------------------------------------------------------------------------------
struct Free { bound: Vec<BTreeSet<String>>, free: Vec<String> }
fn binders_of(p: &syn::Pat) -> BTreeSet<String> { let mut s = BTreeSet::new(); Binders(&mut s).visit_pat(p); s }
impl Free {
    fn is_bound(&self, n: &str) -> bool { self.bound.iter().any(|s| s.contains(n)) }
    fn use_(&mut self, n: String) { if !self.is_bound(&n) && !self.free.contains(&n) { self.free.push(n); } }
    fn tokens(&mut self, ts: TokenStream) {
        // `self . name` not followed by a call is the place `self.name` (disjoint capture); any other `self` is `self` as a whole
        let v: Vec<TokenTree> = ts.clone().into_iter().collect();
        for i in 0..v.len() { if let TokenTree::Ident(id) = &v[i] { if id == "self" {
            let field = match (v.get(i + 1), v.get(i + 2)) { (Some(TokenTree::Punct(p)), Some(TokenTree::Ident(f))) if p.as_char() == '.' => Some(f.to_string()), _ => None };
            let is_call = matches!(v.get(i + 3), Some(TokenTree::Group(g)) if g.delimiter() == proc_macro2::Delimiter::Parenthesis) || matches!(v.get(i + 3), Some(TokenTree::Punct(c)) if c.as_char() == ':');
            match field { Some(f) if !is_call => self.use_(format!("self.{}", f)), _ => self.use_("self".to_string()) }
        } } }
        self.tokens_inner(ts)
    }
    fn tokens_inner(&mut self, ts: TokenStream) { for t in ts { match t { TokenTree::Ident(i) => { let s = i.to_string(); if s != "self" && s.chars().next().map(|c| c.is_lowercase() || c == '_').unwrap_or(false) { self.use_(s); } } TokenTree::Group(g) => self.tokens(g.stream()), _ => {} } } }
}
impl<'a> Visit<'a> for Free {
    fn visit_expr_path(&mut self, p: &'a syn::ExprPath) { if let Some(i) = p.path.get_ident() { self.use_(i.to_string()); } }
    // Rust 2021 disjoint capture: `self.field` captures that place only
    fn visit_expr_field(&mut self, f: &'a syn::ExprField) {
        if let Expr::Path(p) = &*f.base { if p.path.is_ident("self") { if let syn::Member::Named(n) = &f.member { self.use_(format!("self.{}", n)); return; } } }
        syn::visit::visit_expr_field(self, f);
    }
    fn visit_macro(&mut self, m: &'a syn::Macro) {
        // D1c: a dropped log line still captures what it names (its tokens, and `{name}` inside its format string)
        if is_dropped_macro(m) {
            self.tokens(m.tokens.clone());
            for t in m.tokens.clone() { if let TokenTree::Literal(l) = t { let s = l.to_string(); if s.starts_with('"') {
                let b: Vec<char> = s.chars().collect(); let mut i = 0;
                while i < b.len() { if b[i] == '{' { if i + 1 < b.len() && b[i + 1] == '{' { i += 2; continue; } let mut j = i + 1; let mut n = String::new(); while j < b.len() && (b[j].is_alphanumeric() || b[j] == '_') { n.push(b[j]); j += 1; }
                    if !n.is_empty() && !n.chars().next().unwrap().is_numeric() && j < b.len() && (b[j] == '}' || b[j] == ':') { self.use_(n); } i = j; } else { i += 1; } }
            } } }
            return;
        }
        // select! arms bind their patterns for their bodies
        if is_select(m) { if let Ok(arms) = syn::parse2::<Arms>(m.tokens.clone()) { for a in &arms.0 { if let Some(f) = &a.fut { self.visit_expr(f); } let b = match &a.pat { Some(p) => binders_of(p), None => BTreeSet::new() }; self.bound.push(b); self.visit_expr(&a.body); self.bound.pop(); } return; } }
        self.tokens(m.tokens.clone());
    }
    fn visit_expr_struct(&mut self, s: &'a syn::ExprStruct) {
        for f in &s.fields { self.visit_expr(&f.expr); }
        if let Some(r) = &s.rest { self.visit_expr(r); }
    }
    fn visit_expr_closure(&mut self, c: &'a syn::ExprClosure) {
        let mut b = BTreeSet::new(); for p in &c.inputs { b.extend(binders_of(p)); }
        self.bound.push(b); self.visit_expr(&c.body); self.bound.pop();
    }
    fn visit_block(&mut self, b: &'a syn::Block) {
        self.bound.push(BTreeSet::new());
        for st in &b.stmts {
            match st {
                Stmt::Local(l) => { if let Some(i) = &l.init { self.visit_expr(&i.expr); if let Some((_, d)) = &i.diverge { self.visit_expr(d); } }
                                    let nb = binders_of(&l.pat); self.bound.last_mut().unwrap().extend(nb); }
                other => self.visit_stmt(other),
            }
        }
        self.bound.pop();
    }
    fn visit_arm(&mut self, a: &'a syn::Arm) { self.bound.push(binders_of(&a.pat)); if let Some((_, g)) = &a.guard { self.visit_expr(g); } self.visit_expr(&a.body); self.bound.pop(); }
    fn visit_expr_if(&mut self, i: &'a syn::ExprIf) {
        if let Expr::Let(l) = &*i.cond { self.visit_expr(&l.expr); self.bound.push(binders_of(&l.pat)); self.visit_block(&i.then_branch); self.bound.pop(); }
        else { self.visit_expr(&i.cond); self.visit_block(&i.then_branch); }
        if let Some((_, e)) = &i.else_branch { self.visit_expr(e); }
    }
    fn visit_expr_while(&mut self, w: &'a syn::ExprWhile) {
        if let Expr::Let(l) = &*w.cond { self.visit_expr(&l.expr); self.bound.push(binders_of(&l.pat)); self.visit_block(&w.body); self.bound.pop(); }
        else { self.visit_expr(&w.cond); self.visit_block(&w.body); }
    }
    fn visit_expr_for_loop(&mut self, f: &'a syn::ExprForLoop) { self.visit_expr(&f.expr); self.bound.push(binders_of(&f.pat)); self.visit_block(&f.body); self.bound.pop(); }
}
pub fn captures_of_closure(c: &syn::ExprClosure, scope: &BTreeSet<String>) -> Vec<String> {
    let mut fv = Free { bound: vec![], free: vec![] }; fv.visit_expr_closure(c);
    fv.free.into_iter().filter(|n| scope.contains(n) || n == "self" || n.starts_with("self.")).collect()
}
pub fn captures_of_block(b: &syn::Block, scope: &BTreeSet<String>) -> Vec<String> {
    let mut fv = Free { bound: vec![], free: vec![] }; fv.visit_block(b);
    fv.free.into_iter().filter(|n| scope.contains(n) || n == "self" || n.starts_with("self.")).collect()
}

/// G5: `let x = <place>;` (x immutable, place a path / field chain) at the top level of a function body, where nothing under the place's
/// root (nor x) is assigned anywhere in the function
pub fn immutable_place_lets(b: &syn::Block) -> Vec<(String, String)> {
    fn place_root(e: &Expr) -> Option<String> { match e { Expr::Path(p) => p.path.get_ident().map(|i| i.to_string()), Expr::Field(f) => place_root(&f.base), _ => None } }
    struct Assigned(BTreeSet<String>);
    impl<'a> Visit<'a> for Assigned {
        fn visit_expr_assign(&mut self, a: &'a syn::ExprAssign) { if let Some(r) = place_root(&a.left) { self.0.insert(r); } syn::visit::visit_expr_assign(self, a); }
        fn visit_expr_binary(&mut self, bx: &'a syn::ExprBinary) { if matches!(bx.op, syn::BinOp::AddAssign(_) | syn::BinOp::SubAssign(_) | syn::BinOp::MulAssign(_) | syn::BinOp::DivAssign(_)) { if let Some(r) = place_root(&bx.left) { self.0.insert(r); } } syn::visit::visit_expr_binary(self, bx); }
        fn visit_expr_reference(&mut self, r: &'a syn::ExprReference) { if r.mutability.is_some() { if let Some(root) = place_root(&r.expr) { self.0.insert(root); } } syn::visit::visit_expr_reference(self, r); }
        fn visit_expr_method_call(&mut self, m: &'a syn::ExprMethodCall) { if let Some(root) = place_root(&m.receiver) { if let Expr::Field(_) = &*m.receiver { let _ = root; } } syn::visit::visit_expr_method_call(self, m); }
    }
    let mut asg = Assigned(BTreeSet::new()); asg.visit_block(b);
    let mut out = vec![];
    for st in &b.stmts {
        if let Stmt::Local(l) = st { if let (syn::Pat::Ident(pi), Some(init)) = (&l.pat, &l.init) {
            if pi.mutability.is_none() && pi.by_ref.is_none() && init.diverge.is_none() && matches!(&*init.expr, Expr::Field(_)) {
                if let Some(root) = place_root(&init.expr) { if !asg.0.contains(&root) && !asg.0.contains(&pi.ident.to_string()) {
                    out.push((pi.ident.to_string(), tidy(&init.expr.to_token_stream().to_string()).replace(" . ", ".").replace(" .", ".").replace(". ", ".")));
                } }
            }
        } }
    }
    out
}

// ------------------------------------------------------------------------------------------
// vacuity probes (DESIGN §6 step 4): `__hx_probe(id);` at function entry, at the start of every
// loop body and after every loop statement; the emitter prints them as guarded `assert(false)`
// ------------------------------------------------------------------------------------------
pub fn insert_probes(b: &mut syn::Block, name: &str, em: &mut crate::emit::Emitter, probes: &mut Vec<(usize, String)>) {
    struct P<'a> { em: &'a mut crate::emit::Emitter, probes: &'a mut Vec<(usize, String)>, k: usize }
    impl<'a> P<'a> { fn mk(&mut self, wh: String) -> Stmt { let id = self.em.next_probe; self.em.next_probe += 1; self.probes.push((id, wh)); let lit = proc_macro2::Literal::usize_unsuffixed(id); parse_quote!(__hx_probe(#lit);) } }
    impl<'a> VisitMut for P<'a> {
        fn visit_block_mut(&mut self, b: &mut syn::Block) {
            visit_mut::visit_block_mut(self, b);
            let mut out = vec![];
            for st in std::mem::take(&mut b.stmts) {
                let is_loop_stmt = match &st { Stmt::Expr(Expr::Loop(_), _) | Stmt::Expr(Expr::While(_), _) | Stmt::Expr(Expr::ForLoop(_), _) => true, _ => false };
                out.push(st);
                if is_loop_stmt { let k = self.k; self.k += 1; out.push(self.mk(format!("after loop #{}", k))); }
            }
            b.stmts = out;
        }
        fn visit_expr_mut(&mut self, e: &mut Expr) {
            visit_mut::visit_expr_mut(self, e);
            let body = match e { Expr::Loop(l) => Some(&mut l.body), Expr::While(l) => Some(&mut l.body), Expr::ForLoop(l) => Some(&mut l.body), _ => None };
            if let Some(body) = body {
                // keep the `__hx_loop(k);` marker first
                let st = self.mk("loop body start".to_string());
                let pos = if body.stmts.first().map(|s| s.to_token_stream().to_string().starts_with("__hx_loop")).unwrap_or(false) { 1 } else { 0 };
                body.stmts.insert(pos, st);
            }
        }
    }
    let mut p = P { em, probes, k: 0 };
    p.visit_block_mut(b);
    let st = p.mk("function entry".to_string());
    b.stmts.insert(0, st);
    let _ = name;
}

/// L1m: `&mut cap` -> `&mut *cap` for captures that the lifted function receives by mutable reference
pub fn reborrow_mut_captures(block: &mut syn::Block, caps: &[String]) {
    struct V<'a> { caps: &'a [String] }
    impl<'a> VisitMut for V<'a> {
        fn visit_expr_mut(&mut self, e: &mut Expr) {
            syn::visit_mut::visit_expr_mut(self, e);
            if let Expr::Reference(r) = e { if r.mutability.is_some() { if let Expr::Path(p) = &*r.expr { if let Some(id) = p.path.get_ident() { if self.caps.contains(&id.to_string()) {
                let inner = (*r.expr).clone(); *r.expr = syn::parse_quote!(*#inner);
            } } } } }
        }
        fn visit_macro_mut(&mut self, m: &mut syn::Macro) {
            if is_pin_macro(m) { if let Ok(mut inner) = syn::parse2::<Expr>(m.tokens.clone()) { self.visit_expr_mut(&mut inner); m.tokens = quote::quote!(#inner); } }
        }
    }
    V { caps }.visit_block_mut(block);
}

// ------------------------------------------------------------------------------------------
// rule H1: a call of a function the pinned tree does not have (a helper split off by an edit), defined in the same file, is replaced by
// the helper's body: `{ let (params) = (args); body }`. Only where that is the same program: the helper has no `return`; a `?` in it is
// accepted only if the call is the tail expression of the calling function (there, leaving the helper with an error and leaving the caller
// with it are the same thing); an `async fn` helper only where it is awaited on the spot.
// ------------------------------------------------------------------------------------------
pub struct Helper { pub sig: syn::Signature, pub block: syn::Block, pub receiver: bool }
pub fn new_helpers(file: &syn::File, self_head: Option<&str>, baseline: &BTreeSet<String>) -> std::collections::BTreeMap<String, Helper> {
    let mut out: std::collections::BTreeMap<String, Helper> = Default::default();
    let mut twice: BTreeSet<String> = BTreeSet::new();
    let mut add = |sig: &syn::Signature, block: &syn::Block, out: &mut std::collections::BTreeMap<String, Helper>| {
        let n = sig.ident.to_string();
        if baseline.contains(&n) { return; }
        if out.contains_key(&n) { twice.insert(n); return; }
        let receiver = sig.inputs.iter().any(|a| matches!(a, syn::FnArg::Receiver(_)));
        out.insert(n, Helper { sig: sig.clone(), block: block.clone(), receiver });
    };
    for it in &file.items {
        match it {
            syn::Item::Fn(f) => add(&f.sig, &f.block, &mut out),
            syn::Item::Impl(im) if im.trait_.is_none() => {
                if let Some(h) = self_head { if crate::type_head(&im.self_ty) != h { continue; } } else { continue; }
                for ii in &im.items { if let syn::ImplItem::Fn(m) = ii { add(&m.sig, &m.block, &mut out); } }
            }
            _ => {}
        }
    }
    for n in twice { out.remove(&n); }
    out
}
fn has_return_or_try(b: &syn::Block) -> (bool, bool) {
    struct F(bool, bool);
    impl<'a> Visit<'a> for F {
        fn visit_expr(&mut self, e: &'a Expr) {
            match e { Expr::Return(_) => self.0 = true, Expr::Try(_) => self.1 = true, Expr::Closure(_) | Expr::Async(_) => return, _ => {} }
            syn::visit::visit_expr(self, e);
        }
    }
    let mut f = F(false, false); f.visit_block(b); (f.0, f.1)
}
/// H1r: the statements of a function body with its early exits written as nesting, so that the value of the block is the value the function
/// returns and no `return` / statement-level `?` is left: `return E;` ends the block with `E`; `if c { ..; return X }` followed by REST is
/// `if c { ..; X } else { REST }`; `let P = e else { ..; return X };` REST is `match e { P => { REST }, _ => { ..; X } }`;
/// `let P = e?;` REST is `match e { Ok(P) => { REST }, Err(x) => Err(x.into()) }` (`None` for an `Option`). Nothing is duplicated, and
/// `None` is returned where a shape is not one of these (the helper is then not inlined).
fn structured_returns(stmts: &[Stmt], ret_is_option: bool) -> Option<Vec<Stmt>> {
    fn ends_in_return(b: &[Stmt]) -> bool { matches!(b.last(), Some(Stmt::Expr(Expr::Return(_), _))) }
    fn has_ret(st: &Stmt) -> bool { let b: syn::Block = parse_quote!({ #st }); let (r, t) = has_return_or_try(&b); r || t }
    let mut out: Vec<Stmt> = vec![];
    for (i, st) in stmts.iter().enumerate() {
        let rest = &stmts[i + 1..];
        if !has_ret(st) { out.push(st.clone()); continue; }
        match st {
            Stmt::Expr(Expr::Return(r), _) => { if let Some(e) = &r.expr { let e = &**e; if has_ret(&Stmt::Expr(e.clone(), None)) { return None; } out.push(Stmt::Expr(e.clone(), None)); } return Some(out); }
            Stmt::Expr(Expr::If(ife), _) if !matches!(&*ife.cond, Expr::Let(_)) || true => {
                let cond = &ife.cond;
                if has_ret(&Stmt::Expr((**cond).clone(), None)) { return None; }
                let then_ret = ends_in_return(&ife.then_branch.stmts);
                let (else_stmts, else_ret): (Vec<Stmt>, bool) = match &ife.else_branch { None => (vec![], false), Some((_, e)) => match &**e { Expr::Block(b) => (b.block.stmts.clone(), ends_in_return(&b.block.stmts)), _ => return None } };
                let t: Vec<Stmt> = if then_ret { structured_returns(&ife.then_branch.stmts, ret_is_option)? } else { if !else_ret { return None; } let mut v = ife.then_branch.stmts.clone(); v.extend(rest.iter().cloned()); structured_returns(&v, ret_is_option)? };
                let e: Vec<Stmt> = if else_ret { structured_returns(&else_stmts, ret_is_option)? } else { let mut v = else_stmts.clone(); v.extend(rest.iter().cloned()); structured_returns(&v, ret_is_option)? };
                out.push(Stmt::Expr(parse_quote!(if #cond { #(#t)* } else { #(#e)* }), None));
                return Some(out);
            }
            Stmt::Local(l) => {
                let init = l.init.as_ref()?;
                let pat = &l.pat;
                if let Some((_, d)) = &init.diverge {
                    // let P = e else { ..; return X };
                    let Expr::Block(db) = &**d else { return None; };
                    if !ends_in_return(&db.block.stmts) { return None; }
                    let e = &init.expr; if has_ret(&Stmt::Expr((**e).clone(), None)) { return None; }
                    let dv = structured_returns(&db.block.stmts, ret_is_option)?;
                    let rv = structured_returns(rest, ret_is_option)?;
                    let p: syn::Pat = match pat { syn::Pat::Type(pt) => (*pt.pat).clone(), o => o.clone() };
                    out.push(Stmt::Expr(parse_quote!(match #e { #p => { #(#rv)* } _ => { #(#dv)* } }), None));
                    return Some(out);
                }
                // let P = e?;
                let Expr::Try(t) = &*init.expr else { return None; };
                let e = &t.expr; if has_ret(&Stmt::Expr((**e).clone(), None)) { return None; }
                let rv = structured_returns(rest, ret_is_option)?;
                let p: syn::Pat = match pat { syn::Pat::Type(pt) => (*pt.pat).clone(), o => o.clone() };
                if ret_is_option { out.push(Stmt::Expr(parse_quote!(match #e { Some(#p) => { #(#rv)* } None => None }), None)); }
                else { out.push(Stmt::Expr(parse_quote!(match #e { Ok(#p) => { #(#rv)* } Err(hx_early) => Err(hx_early.into()) }), None)); }
                return Some(out);
            }
            // e?;   (the value is dropped)
            Stmt::Expr(Expr::Try(t), Some(_)) => {
                let e = &t.expr; if has_ret(&Stmt::Expr((**e).clone(), None)) { return None; }
                let rv = structured_returns(rest, ret_is_option)?;
                if ret_is_option { out.push(Stmt::Expr(parse_quote!(match #e { Some(_) => { #(#rv)* } None => None }), None)); }
                else { out.push(Stmt::Expr(parse_quote!(match #e { Ok(_) => { #(#rv)* } Err(hx_early) => Err(hx_early.into()) }), None)); }
                return Some(out);
            }
            // tail `e?` and `Ok(e?)` / `Some(e?)`
            Stmt::Expr(Expr::Try(t), None) if rest.is_empty() => {
                let e = &t.expr; if has_ret(&Stmt::Expr((**e).clone(), None)) { return None; }
                let _ = e; return None;   // (`e?` as the value of a function returning Result / Option does not type-check: not a shape that occurs)
            }
            Stmt::Expr(Expr::Call(c), None) if rest.is_empty() && c.args.len() == 1 => {
                let f = nospace(&c.func.to_token_stream().to_string());
                let Expr::Try(t) = &c.args[0] else { return None; };
                let e = &t.expr; if has_ret(&Stmt::Expr((**e).clone(), None)) { return None; }
                if f == "Ok" && !ret_is_option { out.push(Stmt::Expr(parse_quote!(match #e { Ok(hx_v) => Ok(hx_v), Err(hx_early) => Err(hx_early.into()) }), None)); return Some(out); }
                if f == "Some" && ret_is_option { out.push(Stmt::Expr(parse_quote!(match #e { Some(hx_v) => Some(hx_v), None => None }), None)); return Some(out); }
                return None;
            }
            _ => return None,
        }
    }
    Some(out)
}
pub fn inline_new_helpers(block: &mut syn::Block, helpers: &std::collections::BTreeMap<String, Helper>, self_by_value: bool, cx: &mut Ctx) {
    if helpers.is_empty() && !block.stmts.iter().any(|st| matches!(st, Stmt::Item(syn::Item::Fn(_)))) { return; }
    // which helper does this expression call (directly; `.await`ed for an async one)?
    fn turbofish(a: &syn::PathArguments) -> Vec<syn::Type> {
        match a { syn::PathArguments::AngleBracketed(ab) => ab.args.iter().filter_map(|g| if let syn::GenericArgument::Type(t) = g { Some(t.clone()) } else { None }).collect(), _ => vec![] }
    }
    fn ts_mentions(ts: TokenStream, w: &str) -> bool {
        ts.into_iter().any(|t| match t { TokenTree::Ident(id) => id == w, TokenTree::Group(g) => ts_mentions(g.stream(), w), _ => false })
    }
    fn ts_subst(ts: TokenStream, w: &str, with: &TokenStream) -> TokenStream {
        ts.into_iter().flat_map(|t| -> Vec<TokenTree> { match t {
            TokenTree::Ident(id) if id == w => with.clone().into_iter().collect(),
            TokenTree::Group(g) => { let mut n = proc_macro2::Group::new(g.delimiter(), ts_subst(g.stream(), w, with)); n.set_span(g.span()); vec![TokenTree::Group(n)] }
            other => vec![other] } }).collect()
    }
    // the helper with its own type parameters replaced by what the call names for them (`f::<X, Y>(..)`); a helper whose body names a type
    // parameter of its own that the call leaves to inference cannot be written out at the call site
    fn instantiate(h: &Helper, tf: &[syn::Type]) -> Option<Helper> {
        let own: Vec<String> = h.sig.generics.params.iter().filter_map(|g| if let syn::GenericParam::Type(t) = g { Some(t.ident.to_string()) } else { None }).collect();
        if own.is_empty() { return Some(Helper { sig: h.sig.clone(), block: h.block.clone(), receiver: h.receiver }); }
        if tf.len() == own.len() {
            let mut blk = h.block.to_token_stream(); let mut inputs = h.sig.inputs.to_token_stream();
            let mut out = h.sig.output.to_token_stream();
            for (g, t) in own.iter().zip(tf.iter()) { let with = t.to_token_stream(); blk = ts_subst(blk, g, &with); inputs = ts_subst(inputs, g, &with); out = ts_subst(out, g, &with); }
            let mut sig = h.sig.clone(); sig.generics = Default::default();
            sig.output = syn::parse2(out).ok()?;
            let parsed: syn::punctuated::Punctuated<syn::FnArg, syn::Token![,]> = syn::parse::Parser::parse2(syn::punctuated::Punctuated::parse_terminated, inputs).ok()?;
            sig.inputs = parsed;
            return Some(Helper { sig, block: syn::parse2(blk).ok()?, receiver: h.receiver });
        }
        // (log lines are dropped anyway: what they name does not count)
        let mut quiet = h.block.clone();
        struct Q<'a>(&'a [String]);
        impl<'a> VisitMut for Q<'a> { fn visit_block_mut(&mut self, b: &mut syn::Block) {
            let own = self.0;
            let names = |m: &syn::Macro| is_dropped_macro(m) && own.iter().any(|g| ts_mentions(m.tokens.clone(), g));
            b.stmts.retain(|st| !matches!(st, Stmt::Macro(m) if names(&m.mac)) && !matches!(st, Stmt::Expr(Expr::Macro(m), _) if names(&m.mac)));
            visit_mut::visit_block_mut(self, b); } }
        Q(&own).visit_block_mut(&mut quiet);
        if own.iter().any(|g| ts_mentions(quiet.to_token_stream(), g)) { return None; }
        Some(Helper { sig: h.sig.clone(), block: quiet, receiver: h.receiver })
    }
    fn callee(e: &Expr, helpers: &std::collections::BTreeMap<String, Helper>) -> Option<(Helper, Vec<Expr>)> {
        let (inner, awaited) = match e { Expr::Await(a) => (&*a.base, true), other => (other, false) };
        let mut tf: Vec<syn::Type> = vec![];
        let (h, args) = match inner {
            Expr::MethodCall(m) if matches!(&*m.receiver, Expr::Path(p) if p.path.is_ident("self")) => {
                let h = helpers.get(&m.method.to_string())?; if !h.receiver { return None; }
                if let Some(t) = &m.turbofish { tf = t.args.iter().filter_map(|g| if let syn::GenericArgument::Type(t) = g { Some(t.clone()) } else { None }).collect(); }
                (h, m.args.iter().cloned().collect::<Vec<_>>())
            }
            Expr::Call(c) => {
                let Expr::Path(p) = &*c.func else { return None; };
                let segs: Vec<String> = p.path.segments.iter().map(|s| s.ident.to_string()).collect();
                if p.path.segments.iter().rev().skip(1).any(|s| !s.arguments.is_empty()) { return None; }   // (a turbofish on the function itself is left to inference)
                let name = match segs.as_slice() { [n] => n.clone(), [q, n] if q == "Self" => n.clone(), _ => return None };
                let h = helpers.get(&name)?; if h.receiver { return None; }
                if let Some(last) = p.path.segments.last() { tf = turbofish(&last.arguments); }
                (h, c.args.iter().cloned().collect::<Vec<_>>())
            }
            _ => return None,
        };
        if h.sig.asyncness.is_some() != awaited { return None; }
        let nparams = h.sig.inputs.iter().filter(|a| matches!(a, syn::FnArg::Typed(_))).count();
        if nparams != args.len() { return None; }
        Some((instantiate(h, &tf)?, args))
    }
    fn build(h: &Helper, args: Vec<Expr>) -> Expr {
        let pats: Vec<syn::Pat> = h.sig.inputs.iter().filter_map(|a| if let syn::FnArg::Typed(pt) = a { Some((*pt.pat).clone()) } else { None }).collect();
        let stmts = &h.block.stmts;
        // the parameter types are kept where they can be written at the call site (no generics of the helper itself, no `impl Trait`)
        let tys: Vec<syn::Type> = h.sig.inputs.iter().filter_map(|a| if let syn::FnArg::Typed(pt) = a { Some((*pt.ty).clone()) } else { None }).collect();
        let own_generics: Vec<String> = h.sig.generics.params.iter().filter_map(|g| if let syn::GenericParam::Type(t) = g { Some(t.ident.to_string()) } else { None }).collect();
        let typed = !tys.is_empty() && tys.iter().all(|t| { let txt = t.to_token_stream().to_string(); !txt.contains("impl ") && !txt.contains('\'') && !own_generics.iter().any(|g| txt.split(|c: char| !c.is_alphanumeric() && c != '_').any(|w| w == g)) });
        // the helper's result type is written at the block (what its `Ok(..)`, `?` and `.into()` resolve against); a type parameter of the
        // helper that the call leaves to inference becomes `_`
        let ret: Option<syn::Type> = match &h.sig.output { syn::ReturnType::Type(_, t) => {
            let mut ts = t.to_token_stream(); let under: TokenStream = quote!(_);
            for g in &own_generics { ts = ts_subst(ts, g, &under); }
            let txt = ts.to_string();
            if txt.contains("impl ") || txt.contains('\'') { None } else { syn::parse2::<syn::Type>(ts).ok() } }
            syn::ReturnType::Default => None };
        let body: Vec<Stmt> = match &ret { Some(rt) => { let inner = &h.block.stmts; vec![parse_quote!(let hx_ret: #rt = { #(#inner)* };), Stmt::Expr(parse_quote!(hx_ret), None)] } None => h.block.stmts.clone() };
        let stmts = &body;
        if typed && pats.len() == 1 { let p = &pats[0]; let a = &args[0]; let t = &tys[0]; return parse_quote!({ let #p: #t = #a; #(#stmts)* }); }
        if typed && pats.len() > 1 { return parse_quote!({ let (#(#pats),*): (#(#tys),*) = (#(#args),*); #(#stmts)* }); }
        if pats.is_empty() { parse_quote!({ #(#stmts)* }) }
        else if pats.len() == 1 { let p = &pats[0]; let a = &args[0]; parse_quote!({ let #p = #a; #(#stmts)* }) }
        else { parse_quote!({ let (#(#pats),*) = (#(#args),*); #(#stmts)* }) }
    }
    // inside a closure or an async block of a function that OWNS `self` (a by-value receiver) a call `self.f(..)` makes the closure capture
    // `self` as a whole, while the helper's statements written out would capture only the fields they name: there the call is left alone
    // (what a closure owns is part of what is verified). Where `self` is a reference, either way the closure holds references only.
    fn is_self_method(e: &Expr) -> bool {
        let inner = match e { Expr::Await(a) => &*a.base, Expr::Try(t) => match &*t.expr { Expr::Await(a) => &*a.base, o => o }, o => o };
        matches!(inner, Expr::MethodCall(m) if matches!(&*m.receiver, Expr::Path(p) if p.path.is_ident("self")))
    }
    struct V<'a> { helpers: &'a std::collections::BTreeMap<String, Helper>, fired: usize, depth: usize, capturing: usize, h1r: usize, owns_self: bool }
    impl<'a> VisitMut for V<'a> {
        fn visit_expr_mut(&mut self, e: &mut Expr) {
            let cap = matches!(e, Expr::Closure(_) | Expr::Async(_));
            if cap { self.capturing += 1; }
            visit_mut::visit_expr_mut(self, e);
            if cap { self.capturing -= 1; }
            if self.depth > 3 { return; }
            if self.owns_self && self.capturing > 0 && is_self_method(e) { return; }
            // `f(..)?`: an error the helper leaves with through a `?` of its own is the error this `?` passes on
            if let Expr::Try(t) = e { if let Some((mut h, args)) = callee(&t.expr, self.helpers) {
                let (mut ret, _) = has_return_or_try(&h.block);
                if ret {
                    let rt = match &h.sig.output { syn::ReturnType::Type(_, t) => nospace(&t.to_token_stream().to_string()), _ => String::new() };
                    if let Some(st) = structured_returns(&h.block.stmts, rt.starts_with("Option<")) { h.block.stmts = st; let (r2, t2) = has_return_or_try(&h.block); if !r2 && !t2 { ret = false; self.h1r += 1; } }
                }
                if !ret {
                    let mut n = build(&h, args);
                    self.depth += 1; visit_mut::visit_expr_mut(self, &mut n); self.depth -= 1;
                    *t.expr = n; self.fired += 1;
                }
                return;
            } }
            if let Some((mut h, args)) = callee(e, self.helpers) {
                let (ret, tr) = has_return_or_try(&h.block);
                if ret || tr {
                    // H1r: early exits written as nesting, where the shapes allow it
                    let rt = match &h.sig.output { syn::ReturnType::Type(_, t) => nospace(&t.to_token_stream().to_string()), _ => String::new() };
                    let Some(st) = structured_returns(&h.block.stmts, rt.starts_with("Option<")) else { return; };
                    h.block.stmts = st;
                    let (r2, t2) = has_return_or_try(&h.block); if r2 || t2 { return; }
                    self.h1r += 1;
                }
                let mut n = build(&h, args);
                self.depth += 1; visit_mut::visit_expr_mut(self, &mut n); self.depth -= 1;
                *e = n; self.fired += 1;
            }
        }
    }
    let mut fired = 0usize;
    // functions declared inside the body are helpers of this function only
    let mut local: std::collections::BTreeMap<String, Helper> = Default::default();
    block.stmts.retain(|st| if let Stmt::Item(syn::Item::Fn(f)) = st {
        local.insert(f.sig.ident.to_string(), Helper { sig: f.sig.clone(), block: (*f.block).clone(), receiver: false }); false } else { true });
    let merged: std::collections::BTreeMap<String, Helper>;
    let helpers = if local.is_empty() { helpers } else {
        let mut m: std::collections::BTreeMap<String, Helper> = Default::default();
        for (k, h) in helpers.iter() { m.insert(k.clone(), Helper { sig: h.sig.clone(), block: h.block.clone(), receiver: h.receiver }); }
        for (k, h) in local { m.insert(k, h); }
        merged = m; &merged };
    // the tail of the function (its last expression, the operand of a final `return`, or a last statement `f(..);` of a helper without a
    // result): leaving the helper early with `return` or `?` is leaving the caller with the same value
    match block.stmts.last_mut() {
        Some(Stmt::Expr(Expr::Return(r), _)) => { if let Some(te) = r.expr.as_mut() { if let Some((h, args)) = callee(te, helpers) { **te = build(&h, args); fired += 1; } } }
        Some(Stmt::Expr(te, None)) => { if let Some((h, args)) = callee(te, helpers) { *te = build(&h, args); fired += 1; } }
        Some(Stmt::Expr(te, Some(_))) => { if let Some((h, args)) = callee(te, helpers) { if matches!(h.sig.output, syn::ReturnType::Default) { *te = build(&h, args); fired += 1; } } }
        _ => {}
    }
    let mut v = V { helpers, fired: 0, depth: 0, capturing: 0, h1r: 0, owns_self: self_by_value };
    v.visit_block_mut(block);
    for _ in 0..(fired + v.fired) { cx.fire("H1"); }
    for _ in 0..v.h1r { cx.fire("H1r"); }
}
