// small text helpers
pub fn nospace(s: &str) -> String { s.chars().filter(|c| !c.is_whitespace()).collect() }

/// make a token string printed by proc-macro2 look like source again (only spacing; never changes tokens)
pub fn tidy(s: &str) -> String {
    let mut t = s.to_string();
    for (a, b) in [(" :: ", "::"), (":: ", "::"), (" ::", "::"), (" < ", "<"), ("< ", "<"), (" <", "<"), (" >", ">"), (" ,", ","), ("& ", "&"), (" ;", ";"), ("( ", "("), (" )", ")"), (" :", ":"), ("' ", "'")] {
        while t.contains(a) { t = t.replace(a, b); }
    }
    t.replace("-><", "-> <")
}

/// global byte offsets of a span in proc-macro2's fallback source map (`byte_range()` is file-relative; the Debug form is global)
pub fn global_range(sp: proc_macro2::Span) -> Option<(usize, usize)> {
    let d = format!("{:?}", sp);
    let i = d.find("bytes(")?; let rest = &d[i + 6..]; let j = rest.find(')')?; let (a, b) = rest[..j].split_once("..")?;
    Some((a.parse().ok()?, b.parse().ok()?))
}
