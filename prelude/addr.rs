// ===== prelude/addr.rs — what the address unit stands on: the submit closures (contracts proved in unit chan), client traits, payload objects =====
impl<A> ArcForceTx<A> {
    // ForceTxFn::send: the force closure of the channel (contract = the lifted closure bodies Channel__*__closure1 of unit chan)
    #[verifier::external_body]
    pub fn send(&self, msg: Payload<A>, Tracked(w): Tracked<&mut World>) -> (r: Result<(), ActorError>)
        ensures submit_post(self.chan(), pid_of(&msg), true, old(w), final(w), r is Ok)
    { unimplemented!() }
}
impl<A> ArcTx<A> {
    // TxFn::send(..).await: the waiting closure of the channel (contract = Channel__*__closure0 of unit chan)
    #[verifier::external_body]
    pub fn send(&self, msg: Payload<A>, Tracked(w): Tracked<&mut World>) -> (r: Result<(), ActorError>)
        ensures submit_post(self.chan(), pid_of(&msg), false, old(w), final(w), r is Ok)
    { unimplemented!() }
}
#[verifier::external_body] #[verifier::accept_recursive_types(A)]
pub struct Context<A> { p: core::marker::PhantomData<A> }
pub trait Actor: Sized { spec fn gid(&self) -> int; }
pub trait RestartableActor: Actor {}
pub uninterp spec fn mid_of<M>(m: &M) -> int;              // ghost identity of a message value
pub uninterp spec fn handler_result(mid: int) -> int;      // the value the handler invocation for message `mid` produces
pub trait Message: Sized { type Response; }
// client contract: a handler invocation appends its own Handled event and produces *the* result for that message
pub trait Handler<M: Message>: Actor {
    fn handle(&mut self, ctx: &mut Context<Self>, msg: M, Tracked(w): Tracked<&mut World>) -> (r: M::Response)
        ensures emits(old(w), final(w), Ev::Handled { mid: mid_of(&msg) }), rid(&r) == handler_result(mid_of(&msg)), final(self).gid() == old(self).gid();
    // the same invocation as a future VALUE (rule A1b), see HandleFut below
    fn handle__fut<'a>(&'a mut self, ctx: &'a mut Context<Self>, msg: M) -> (r: HandleFut<'a, M::Response>) ensures r.mid() == mid_of(&msg), final(self).gid() == old(self).gid();
}
// payload objects: which closure literal, for which message, answering on which slot (C02)
pub struct PayloadDesc { pub code: int, pub mid: int, pub slot: int }
pub uninterp spec fn payload_desc(pid: int) -> PayloadDesc;
#[verifier::external_body] #[verifier::accept_recursive_types(A)] pub struct TaskFnObj<A> { p: core::marker::PhantomData<A> }
impl<A> TaskFnObj<A> { pub uninterp spec fn pid(&self) -> int; }
pub uninterp spec fn task_uid(code: int, cap0: int, cap1: int) -> int;   // ghost identity of a payload closure object: which literal over which message and slot
impl ClosureObj { pub open spec fn uid(&self) -> int { task_uid(self.code(), self.cap0(), self.cap1()) } }
impl<A> BoxNew<ClosureObj> for TaskFnObj<A> {
    open spec fn boxed_ok(t: &ClosureObj, r: &Self) -> bool { r.pid() == t.uid() && payload_desc(r.pid()) == PayloadDesc { code: t.code(), mid: t.cap0(), slot: t.cap1() } }
    #[verifier::external_body] fn box_new_(t: ClosureObj) -> (r: Self) { unimplemented!() }
}
pub open spec fn ppid<A>(p: &Payload<A>) -> int { match p { Payload::Task(f) => f.pid(), Payload::Stop => -1int, Payload::Restart => -2int } }
pub broadcast axiom fn pid_of_payload<A>(p: &Payload<A>) ensures #[trigger] pid_of(p) == ppid(p);
// client contract (§5.2): a message value owns nothing of hannibal's channels (it holds no handle to the actor it is sent to)
pub broadcast axiom fn own_of_message<M: Message>(m: &M) ensures #[trigger] own_of(m) == own_none();
// a handler invocation as a future VALUE (rule A1b; only a changed tree races it against something): run to completion it is the
// invocation (its Handled event, the result for that message); dropped un-finished the invocation is ABANDONED half-way: no Handled event,
// no result (what it did before being dropped is client state the model does not track)
#[verifier::external_body] #[verifier::accept_recursive_types(R)] pub struct HandleFut<'a, R> { p: core::marker::PhantomData<&'a mut R> }
impl<'a, R> HandleFut<'a, R> { pub uninterp spec fn mid(&self) -> int; pub uninterp spec fn needs(&self) -> nat; }
impl<'a, R> VFuture for HandleFut<'a, R> {
    type Output = R;
    open spec fn pre(&self, w: &World) -> bool { true }
    open spec fn done(&self, w0: &World, w1: &World, out: &R) -> bool { emits(w0, w1, Ev::Handled { mid: self.mid() }) && rid(out) == handler_result(self.mid()) }
    open spec fn dropped(&self, w0: &World, w1: &World) -> bool { same_world(w0, w1) }
    open spec fn ready_at(&self) -> nat { self.needs() }
    #[verifier::external_body] fn await_(self, Tracked(w): Tracked<&mut World>) -> (r: R) { unimplemented!() }
}
// oneshot::Sender::cancellation(): resolves once the receiving half is gone (the caller gave up)
#[verifier::external_body] pub struct CancellationFut<'a> { p: core::marker::PhantomData<&'a mut ()> }
impl<'a> CancellationFut<'a> { pub uninterp spec fn needs(&self) -> nat; }
impl<'a> VFuture for CancellationFut<'a> {
    type Output = ();
    open spec fn pre(&self, w: &World) -> bool { true }
    open spec fn done(&self, w0: &World, w1: &World, out: &()) -> bool { same_world(w0, w1) }
    open spec fn dropped(&self, w0: &World, w1: &World) -> bool { same_world(w0, w1) }
    open spec fn ready_at(&self) -> nat { self.needs() }
    #[verifier::external_body] fn await_(self, Tracked(w): Tracked<&mut World>) -> (r: ()) { unimplemented!() }
}
impl<T> OsSender<T> {
    #[verifier::external_body] pub fn cancellation<'a>(&'a mut self) -> (r: CancellationFut<'a>) ensures final(self).slot() == old(self).slot() { unimplemented!() }
}
