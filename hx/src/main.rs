// hx — mechanical extractor: /repo source items -> Verus dialect text (DESIGN.md §3, §4).
//
// Nothing in here knows a property.  It reads a unit description (which items of which
// files, which names are traced/eager, type and path maps), applies the fixed rewrite
// rules of DESIGN.md §4 to the *current* text of /repo, splices contract clauses from
// the unit's .spec files by item name / loop ordinal, and writes one Verus file plus a
// line map.  A construct no rule covers is reported on stderr and makes hx exit 2.
mod emit;
mod rewrite;
mod unit;
mod util;

use proc_macro2::TokenStream;
use quote::{quote, ToTokens};
use std::collections::{BTreeMap, BTreeSet};
use std::path::{Path, PathBuf};
use syn::visit_mut::VisitMut;

use emit::Emitter;
use rewrite::Rw;
use unit::{Extract, Unit};
use util::*;

pub struct Ctx {
    pub unit: Unit,
    pub repo: PathBuf,
    pub probe: bool,
    pub rules: BTreeMap<String, usize>,
    pub errors: Vec<String>,
    pub soft: Vec<String>,
    pub uncontracted: Vec<String>,
    pub cur_encl: String,   // the function whose closure literals are being emitted
    pub consts_done: BTreeSet<String>,
    pub params: BTreeMap<String, Vec<String>>,   // pinned parameter names (contracts/PARAMS.json): a renamed parameter is renamed back (rule P4)
    pub dump_params: BTreeMap<String, Vec<String>>,
    pub cur_fn: String,
    pub dropbody: BTreeSet<String>,
    pub dropped: Vec<String>,
    pub dropped_notes: Vec<String>,
    pub files: BTreeMap<String, syn::File>,
    pub file_ranges: BTreeMap<String, (usize, usize)>,
    pub local_mods: BTreeSet<String>,   // child modules declared in the files read so far: paths rooted there are crate-local (rule N1)
    pub baseline_fns: BTreeSet<String>,   // names of all functions of the pinned tree (contracts/FNS.txt): a function not in it is a helper an edit added (rule H1)
    pub pending: Vec<(Vec<syn::Generics>, rewrite::LiftedClosure, String)>,   // lifted closures of methods inside an open trait / impl block
}
impl Ctx {
    pub fn fire(&mut self, rule: &str) { *self.rules.entry(rule.to_string()).or_insert(0) += 1; }
    /// an error raised while a function body is being rewritten is attributed to that function; for a function whose body the driver
    /// asked to leave out (`--dropbody`) it is only a note
    pub fn err(&mut self, msg: String) {
        if self.cur_fn.is_empty() { self.errors.push(msg); }
        else if self.dropbody.contains(&self.cur_fn) { self.dropped_notes.push(format!("[in {}] {}", self.cur_fn, msg)); }
        else { self.errors.push(format!("[in {}] {}", self.cur_fn, msg)); }
    }
    fn file(&mut self, rel: &str) -> Option<syn::File> {
        if !self.files.contains_key(rel) {
            let p = self.repo.join(rel);
            let src = match std::fs::read_to_string(&p) { Ok(s) => s, Err(e) => { self.err(format!("lost anchor: cannot read {}: {}", p.display(), e)); return None; } };
            match syn::parse_file(&src) {
                Ok(mut f) => {
                    { use syn::spanned::Spanned; let mut lo = usize::MAX; let mut hi = 0usize; for t in f.to_token_stream() { if let Some((a, b)) = global_range(t.span()) { lo = lo.min(a); hi = hi.max(b); } } self.file_ranges.insert(rel.to_string(), (lo, hi)); let _ = f.span(); }
                    let feats = self.unit.features.clone(); strip_cfg_file(&mut f, &feats, self);
                    // N2: `use path::Type::Variant;` makes `Variant` an alias of `Type::Variant` in this file
                    fn walk(t: &syn::UseTree, parent_upper: Option<String>, out: &mut Vec<(String, String)>) {
                        match t {
                            syn::UseTree::Path(p) => { let n = p.ident.to_string(); let up = if n.chars().next().map(|c| c.is_uppercase()).unwrap_or(false) { Some(n) } else { None }; walk(&p.tree, up, out); }
                            syn::UseTree::Name(n) => { if let Some(pu) = parent_upper { out.push((n.ident.to_string(), format!("{}::{}", pu, n.ident))); } }
                            syn::UseTree::Group(g) => { for i in &g.items { walk(i, parent_upper.clone(), out); } }
                            _ => {}
                        }
                    }
                    let mut items = vec![]; all_items(&f.items, &mut items);
                    let mut found = vec![];
                    for it in items { if let syn::Item::Use(u) = it { walk(&u.tree, None, &mut found); } if let syn::Item::Mod(m) = it { self.local_mods.insert(m.ident.to_string()); } }
                    for (a, b) in found { if !self.unit.paths.iter().any(|(k, _)| *k == a) { self.unit.paths.push((a, b)); self.fire("N2"); } }
                    self.files.insert(rel.to_string(), f);
                }
                Err(e) => { self.err(format!("outside dialect: {} does not parse: {}", p.display(), e)); return None; }
            }
        }
        self.files.get(rel).cloned()
    }
}

// ------------------------------------------------------------------------------------------
// cfg evaluation (rule D3)
// ------------------------------------------------------------------------------------------
fn eval_cfg(ts: TokenStream, feats: &BTreeSet<String>) -> Option<bool> {
    // grammar: feature = "x" | test | not(c) | all(c,..) | any(c,..) | debug_assertions
    let toks: Vec<proc_macro2::TokenTree> = ts.into_iter().collect();
    fn split_commas(ts: TokenStream) -> Vec<TokenStream> {
        let mut out = vec![]; let mut cur = TokenStream::new();
        for t in ts { if let proc_macro2::TokenTree::Punct(p) = &t { if p.as_char() == ',' { out.push(cur); cur = TokenStream::new(); continue; } } cur.extend(std::iter::once(t)); }
        if !cur.is_empty() { out.push(cur); }
        out
    }
    match toks.as_slice() {
        [proc_macro2::TokenTree::Ident(i)] => { let s = i.to_string(); if s == "test" { Some(false) } else if s == "debug_assertions" { Some(false) } else { None } }
        [proc_macro2::TokenTree::Ident(i), proc_macro2::TokenTree::Punct(p), proc_macro2::TokenTree::Literal(l)] if i == "feature" && p.as_char() == '=' => {
            let s = l.to_string(); Some(feats.contains(s.trim_matches('"')))
        }
        [proc_macro2::TokenTree::Ident(i), proc_macro2::TokenTree::Group(g)] => {
            let parts = split_commas(g.stream());
            let vals: Option<Vec<bool>> = parts.into_iter().map(|p| eval_cfg(p, feats)).collect();
            let vals = vals?;
            match i.to_string().as_str() { "not" => vals.first().map(|b| !b), "all" => Some(vals.iter().all(|b| *b)), "any" => Some(vals.iter().any(|b| *b)), _ => None }
        }
        _ => None,
    }
}
/// returns Some(false) if the attribute list disables the item under `feats`
pub fn attrs_enabled(attrs: &[syn::Attribute], feats: &BTreeSet<String>, cx: &mut Ctx) -> bool {
    for a in attrs {
        if a.path().is_ident("cfg") {
            if let syn::Meta::List(ml) = &a.meta {
                match eval_cfg(ml.tokens.clone(), feats) {
                    Some(true) => {}
                    Some(false) => { cx.fire("D3"); return false; }
                    None => { cx.err(format!("outside dialect: cfg predicate not understood: {}", ml.tokens)); }
                }
            }
        }
    }
    true
}
fn strip_cfg_items(items: &mut Vec<syn::Item>, feats: &BTreeSet<String>, cx: &mut Ctx) {
    let mut out = vec![];
    for mut it in std::mem::take(items) {
        let attrs: Vec<syn::Attribute> = match &it {
            syn::Item::Fn(x) => x.attrs.clone(), syn::Item::Impl(x) => x.attrs.clone(), syn::Item::Mod(x) => x.attrs.clone(),
            syn::Item::Struct(x) => x.attrs.clone(), syn::Item::Enum(x) => x.attrs.clone(), syn::Item::Trait(x) => x.attrs.clone(),
            syn::Item::Type(x) => x.attrs.clone(), syn::Item::Use(x) => x.attrs.clone(), syn::Item::Static(x) => x.attrs.clone(),
            syn::Item::Const(x) => x.attrs.clone(), syn::Item::Macro(x) => x.attrs.clone(), _ => vec![],
        };
        if !attrs_enabled(&attrs, feats, cx) { continue; }
        match &mut it {
            syn::Item::Mod(m) => { if let Some((_, its)) = &mut m.content { strip_cfg_items(its, feats, cx); } }
            syn::Item::Impl(im) => {
                let mut keep = vec![];
                for ii in std::mem::take(&mut im.items) {
                    let a = match &ii { syn::ImplItem::Fn(f) => f.attrs.clone(), syn::ImplItem::Const(c) => c.attrs.clone(), syn::ImplItem::Type(t) => t.attrs.clone(), _ => vec![] };
                    if attrs_enabled(&a, feats, cx) { keep.push(ii); }
                }
                im.items = keep;
            }
            syn::Item::Trait(tr) => {
                let mut keep = vec![];
                for ti in std::mem::take(&mut tr.items) {
                    let a = match &ti { syn::TraitItem::Fn(f) => f.attrs.clone(), syn::TraitItem::Const(c) => c.attrs.clone(), syn::TraitItem::Type(t) => t.attrs.clone(), _ => vec![] };
                    if attrs_enabled(&a, feats, cx) { keep.push(ti); }
                }
                tr.items = keep;
            }
            syn::Item::Macro(m) => {
                // cfg_if::cfg_if! { if #[cfg(c)] { items } else if .. else { items } }  -> the first enabled branch
                if m.mac.path.segments.last().map(|s| s.ident == "cfg_if").unwrap_or(false) {
                    if let Some(mut its) = eval_cfg_if(m.mac.tokens.clone(), feats, cx) { strip_cfg_items(&mut its, feats, cx); out.extend(its); }
                    continue;
                }
            }
            _ => {}
        }
        out.push(it);
    }
    *items = out;
}
fn eval_cfg_if(ts: TokenStream, feats: &BTreeSet<String>, cx: &mut Ctx) -> Option<Vec<syn::Item>> {
    // token walk: `if # [cfg(..)] { .. } else if # [cfg(..)] { .. } else { .. }`
    let toks: Vec<proc_macro2::TokenTree> = ts.into_iter().collect();
    let mut i = 0;
    while i < toks.len() {
        match &toks[i] {
            proc_macro2::TokenTree::Ident(id) if id == "if" => {
                // expect '#', [cfg(..)], {..}
                let attr = match (&toks.get(i + 1), &toks.get(i + 2)) { (Some(proc_macro2::TokenTree::Punct(p)), Some(proc_macro2::TokenTree::Group(g))) if p.as_char() == '#' => g.stream(), _ => { cx.err("outside dialect: cfg_if shape".into()); return None; } };
                let inner: Vec<proc_macro2::TokenTree> = attr.into_iter().collect();
                let pred = match inner.as_slice() { [proc_macro2::TokenTree::Ident(c), proc_macro2::TokenTree::Group(g)] if c == "cfg" => g.stream(), _ => { cx.err("outside dialect: cfg_if attr".into()); return None; } };
                let body = match &toks.get(i + 3) { Some(proc_macro2::TokenTree::Group(g)) => g.stream(), _ => { cx.err("outside dialect: cfg_if body".into()); return None; } };
                match eval_cfg(pred.clone(), feats) {
                    Some(true) => { cx.fire("D3"); return syn::parse2::<syn::File>(body).ok().map(|f| f.items); }
                    Some(false) => { i += 4; }
                    None => { cx.err(format!("outside dialect: cfg predicate not understood: {}", pred)); return None; }
                }
            }
            proc_macro2::TokenTree::Ident(id) if id == "else" => {
                if let Some(proc_macro2::TokenTree::Group(g)) = toks.get(i + 1) { cx.fire("D3"); return syn::parse2::<syn::File>(g.stream()).ok().map(|f| f.items); }
                i += 1;
            }
            _ => { i += 1; }
        }
    }
    Some(vec![])
}
fn strip_cfg_file(f: &mut syn::File, feats: &BTreeSet<String>, cx: &mut Ctx) { strip_cfg_items(&mut f.items, feats, cx); }

// ------------------------------------------------------------------------------------------
// locating items
// ------------------------------------------------------------------------------------------
fn all_items<'a>(items: &'a [syn::Item], out: &mut Vec<&'a syn::Item>) {
    for it in items { out.push(it); if let syn::Item::Mod(m) = it { if let Some((_, its)) = &m.content { all_items(its, out); } } }
}
pub fn type_head(t: &syn::Type) -> String {
    match t { syn::Type::Path(tp) => tp.path.segments.last().map(|s| s.ident.to_string()).unwrap_or_default(), syn::Type::Reference(r) => format!("&{}", type_head(&r.elem)), _ => nospace(&t.to_token_stream().to_string()) }
}
fn trait_head(im: &syn::ItemImpl) -> Option<String> { im.trait_.as_ref().map(|(_, p, _)| p.segments.last().map(|s| s.ident.to_string()).unwrap_or_default()) }

pub struct Found { pub im: Option<syn::ItemImpl>, pub tr: Option<syn::ItemTrait>, pub f: FnLike }
#[derive(Clone)]
pub struct FnLike { pub attrs: Vec<syn::Attribute>, pub sig: syn::Signature, pub block: syn::Block }

/// path forms: `name` (free fn) | `Type::name` (inherent) | `Trait@Type::name` (trait impl; Type may be `&Type` or a generic parameter name such as `A`) | `trait Trait::name` (default body)
fn find_fn(file: &syn::File, path: &str, nth: usize) -> Vec<Found> {
    let mut items = vec![]; all_items(&file.items, &mut items);
    let mut out = vec![];
    let (tr, rest) = match path.split_once('@') { Some((a, b)) => (Some(a.to_string()), b.to_string()), None => (None, path.to_string()) };
    let (ty, name) = match rest.rsplit_once("::") { Some((a, b)) => (Some(a.to_string()), b.to_string()), None => (None, rest.clone()) };
    for it in items {
        match it {
            syn::Item::Fn(f) if ty.is_none() && tr.is_none() && f.sig.ident == name.as_str() => out.push(Found { im: None, tr: None, f: FnLike { attrs: f.attrs.clone(), sig: f.sig.clone(), block: (*f.block).clone() } }),
            syn::Item::Impl(im) => {
                let th = trait_head(im);
                if th != tr { continue; }
                if let Some(t) = &ty { if &type_head(&im.self_ty) != t { continue; } } else { continue; }
                for ii in &im.items { if let syn::ImplItem::Fn(f) = ii { if f.sig.ident == name.as_str() { out.push(Found { im: Some(im.clone()), tr: None, f: FnLike { attrs: f.attrs.clone(), sig: f.sig.clone(), block: f.block.clone() } }); } } }
            }
            syn::Item::Trait(t) if tr.as_deref() == Some("trait") && ty.as_deref() == Some(t.ident.to_string().as_str()) => {
                for ti in &t.items { if let syn::TraitItem::Fn(f) = ti { if f.sig.ident == name.as_str() { if let Some(b) = &f.default { out.push(Found { im: None, tr: Some(t.clone()), f: FnLike { attrs: f.attrs.clone(), sig: f.sig.clone(), block: b.clone() } }); } } } }
            }
            _ => {}
        }
    }
    let _ = nth;
    out
}

// ------------------------------------------------------------------------------------------
// spec files
// ------------------------------------------------------------------------------------------
#[derive(Default)]
pub struct Specs { pub sections: BTreeMap<String, String>, pub used: BTreeSet<String>, pub exempt: BTreeSet<String>, pub defines: Vec<(String, String)> }
impl Specs {
    fn load_ref(&mut self, p: &Path) -> Result<(), String> {
        let before: BTreeSet<String> = self.sections.keys().cloned().collect();
        let tail_before = self.sections.get("tail").cloned();
        self.load(p)?;
        match tail_before { Some(t) => { self.sections.insert("tail".into(), t); } None => { self.sections.remove("tail"); } }
        for k in self.sections.keys() { if !before.contains(k) { self.exempt.insert(k.clone()); } }
        Ok(())
    }
    fn load(&mut self, p: &Path) -> Result<(), String> {
        let mut s = std::fs::read_to_string(p).map_err(|e| format!("cannot read spec {}: {}", p.display(), e))?;
        for (k, v) in &self.defines { s = s.replace(&format!("${{{}}}", k), v); }
        let mut cur: Option<String> = None;
        for l in s.lines() {
            if l.starts_with('@') { let k = l[1..].split_whitespace().collect::<Vec<_>>().join(" "); self.sections.entry(k.clone()).or_default(); cur = Some(k); continue; }
            if l.trim_start().starts_with("##") { continue; }
            if let Some(k) = &cur { let e = self.sections.get_mut(k).unwrap(); e.push_str(l); e.push('\n'); }
        }
        Ok(())
    }
    /// one section of another unit's contract file (`file#fn Type::method`): only if this unit has no section of that key itself
    fn load_one(&mut self, p: &Path, key: &str) -> Result<(), String> {
        if self.sections.contains_key(key) { return Ok(()); }
        let mut other = Specs::default(); other.defines = self.defines.clone();
        other.load(p)?;
        if let Some(t) = other.sections.get(key) { self.sections.insert(key.to_string(), t.clone()); self.exempt.insert(key.to_string()); }
        Ok(())
    }
    pub fn get(&mut self, key: &str) -> Option<String> { let r = self.sections.get(key).cloned(); if r.is_some() { self.used.insert(key.to_string()); } r }
}

// ------------------------------------------------------------------------------------------
// signature construction
// ------------------------------------------------------------------------------------------
const DROP_BOUNDS: &[&str] = &["Send", "Sync", "Unpin", "Sized", "DynClone"];
fn clean_bounds(bounds: &syn::punctuated::Punctuated<syn::TypeParamBound, syn::Token![+]>, cx: &mut Ctx) -> Vec<TokenStream> {
    let mut out = vec![];
    for b in bounds {
        match b {
            syn::TypeParamBound::Lifetime(_) => { cx.fire("D4"); }
            syn::TypeParamBound::Trait(tb) => {
                let head = tb.path.segments.last().map(|s| s.ident.to_string()).unwrap_or_default();
                if DROP_BOUNDS.contains(&head.as_str()) { cx.fire("D4"); continue; }
                let mut p = tb.path.clone();
                rewrite::strip_bound_prefix(&mut p, cx);
                rewrite::map_path_types(&mut p, cx);
                let s = cx.unit.map_bound(&p.to_token_stream().to_string());
                match s { Some(ts) => out.push(ts), None => out.push(p.to_token_stream()) }
            }
            other => out.push(other.to_token_stream()),
        }
    }
    out
}
/// L3: generic parameters bounded by Fn/FnMut/FnOnce stand for closure literals passed by value; the unit may name further
/// bounds (`generic Future<Output = ..> => Stand<A>`) whose parameters are replaced by a concrete stand-in type
fn closure_generics(gens: &[&syn::Generics], cx: &Ctx) -> BTreeMap<String, String> {
    let rules = cx.unit.generics.clone();
    let repl = |b: &syn::TypeParamBound| -> Option<String> {
        if let syn::TypeParamBound::Trait(tb) = b {
            if tb.path.segments.last().map(|s| matches!(s.ident.to_string().as_str(), "Fn" | "FnMut" | "FnOnce")).unwrap_or(false) { return Some("ClosureObj".to_string()); }
            let key = nospace(&tb.path.to_token_stream().to_string());
            for (a, r) in &rules { if *a == key { return Some(r.clone()); } }
        }
        None
    };
    let mut out = BTreeMap::new();
    for g in gens {
        for p in &g.params { if let syn::GenericParam::Type(tp) = p { if let Some(r) = tp.bounds.iter().find_map(|b| repl(b)) { out.insert(tp.ident.to_string(), r); } } }
        if let Some(w) = &g.where_clause { for pred in &w.predicates { if let syn::WherePredicate::Type(pt) = pred { if let Some(r) = pt.bounds.iter().find_map(|b| repl(b)) { out.insert(nospace(&pt.bounded_ty.to_token_stream().to_string()), r); } } } }
    }
    out
}
fn generics_text(gens: &[&syn::Generics], extra_lifetimes: &[String], cx: &mut Ctx) -> (String, String) {
    let closures = closure_generics(gens, cx);
    let mut params: Vec<String> = extra_lifetimes.to_vec();
    let mut wheres: Vec<String> = vec![];
    // lifetimes first
    for g in gens { for p in &g.params { if let syn::GenericParam::Lifetime(l) = p { params.push(l.lifetime.to_string()); } } }
    for g in gens {
        for p in &g.params {
            match p {
                syn::GenericParam::Type(tp) => {
                    if closures.contains_key(&tp.ident.to_string()) { cx.fire("L3"); continue; }
                    let bs = clean_bounds(&tp.bounds, cx);
                    let dflt = match &tp.default { Some(d) => { let mut d = d.clone(); rewrite::map_type(&mut d, cx); format!(" = {}", tidy(&d.to_token_stream().to_string())) } None => String::new() };
                    if bs.is_empty() { params.push(format!("{}{}", tp.ident, dflt)); } else { params.push(format!("{}: {}{}", tp.ident, bs.iter().map(|b| tidy(&b.to_string())).collect::<Vec<_>>().join(" + "), dflt)); }
                }
                syn::GenericParam::Const(c) => params.push(c.to_token_stream().to_string()),
                syn::GenericParam::Lifetime(_) => {}
            }
        }
        if let Some(w) = &g.where_clause {
            for pred in &w.predicates {
                match pred {
                    syn::WherePredicate::Type(pt) => {
                        if pt.lifetimes.is_some() { cx.fire("D4"); continue; }
                        if closures.contains_key(&nospace(&pt.bounded_ty.to_token_stream().to_string())) { continue; }
                        let bs = clean_bounds(&pt.bounds, cx);
                        if bs.is_empty() { continue; }
                        let mut ty = pt.bounded_ty.clone(); rewrite::map_type(&mut ty, cx);
                        wheres.push(format!("{}: {}", tidy(&ty.to_token_stream().to_string()), bs.iter().map(|b| tidy(&b.to_string())).collect::<Vec<_>>().join(" + ")));
                    }
                    _ => { cx.fire("D4"); }
                }
            }
        }
    }
    let g = if params.is_empty() { String::new() } else { format!("<{}>", params.join(", ")) };
    let w = if wheres.is_empty() { String::new() } else { format!("\n    where {}", wheres.join(", ")) };
    (g, w)
}

/// the `T` of `impl Future<Output = T>` somewhere inside a type
fn future_output(t: &syn::Type) -> Option<syn::Type> {
    struct F(Option<syn::Type>);
    impl<'a> syn::visit::Visit<'a> for F {
        fn visit_type_impl_trait(&mut self, it: &'a syn::TypeImplTrait) {
            for b in &it.bounds { if let syn::TypeParamBound::Trait(tb) = b { if let Some(seg) = tb.path.segments.last() { if seg.ident == "Future" {
                if let syn::PathArguments::AngleBracketed(ab) = &seg.arguments { for a in &ab.args { if let syn::GenericArgument::AssocType(at) = a { if at.ident == "Output" && self.0.is_none() { self.0 = Some(at.ty.clone()); } } } }
            } } } }
        }
    }
    let mut f = F(None); syn::visit::Visit::visit_type(&mut f, t); f.0
}

fn struct_fields(file: &syn::File, name: &str) -> Option<Vec<(String, syn::Type)>> {
    let mut items = vec![]; all_items(&file.items, &mut items);
    for it in items { if let syn::Item::Struct(st) = it { if st.ident == name { return Some(st.fields.iter().filter_map(|f| f.ident.as_ref().map(|i| (i.to_string(), f.ty.clone()))).collect()); } } }
    None
}

// ------------------------------------------------------------------------------------------
// extraction of one function-like thing
// ------------------------------------------------------------------------------------------
fn extract_fn(cx: &mut Ctx, specs: &mut Specs, em: &mut Emitter, ex: &Extract) {
    let Some(file) = cx.file(&ex.file) else { return; };
    let found = find_fn(&file, &ex.path, 0);
    let mut found = found;
    if found.is_empty() && ex.opt("absent").as_deref() == Some("empty") {
        // S2: no `impl Drop` means the drop glue runs no user code: verify the empty body against the same contract
        let (_, rest) = ex.path.split_once('@').unwrap_or(("", ex.path.as_str()));
        let ty = rest.rsplit_once("::").map(|x| x.0).unwrap_or("");
        let mut items = vec![]; all_items(&file.items, &mut items);
        if let Some(st) = items.iter().find_map(|it| if let syn::Item::Struct(s) = it { if s.ident == ty { Some(s.clone()) } else { None } } else { None }) {
            let id = &st.ident; let (ig, tg, wc) = st.generics.split_for_impl();
            let im: syn::ItemImpl = syn::parse_quote!(impl #ig Drop for #id #tg #wc { fn drop(&mut self) {} });
            if let syn::ImplItem::Fn(f) = &im.items[0] { found.push(Found { im: Some(im.clone()), tr: None, f: FnLike { attrs: vec![], sig: f.sig.clone(), block: f.block.clone() } }); cx.fire("S2"); eprintln!("hx: note: `{}` is absent in {}; verified as the empty drop glue", ex.path, ex.file); }
        }
    }
    let found: Vec<Found> = match ex.opt("nth").and_then(|n| n.parse::<usize>().ok()) { Some(n) => found.into_iter().skip(n).take(1).collect(), None => found };
    // a function that is gone (0 candidates) is a soft lost anchor: its own obligations are undecided, the rest of the unit is still
    // verified (a caller that no longer calls it may now fail its own contract, which is then reported); ambiguity stays a hard error
    if found.is_empty() { cx.soft.push(format!("lost anchor: {} `{}` in {}: the function is gone", ex.kind, ex.path, ex.file)); return; }
    if found.len() != 1 { cx.err(format!("lost anchor: {} `{}` in {}: {} candidates", ex.kind, ex.path, ex.file, found.len())); return; }
    if ex.opt("poll").as_deref() == Some("yes") || ex.opt("inherent").as_deref() == Some("yes") {
        // A6: the poll of `impl Future for T` becomes the inherent method `T::await_`; S2: `Drop::drop` is verified as an inherent method
        let mut fd = Found { im: found[0].im.clone(), tr: None, f: found[0].f.clone() };
        if let Some(im) = &mut fd.im { im.trait_ = None; }
        emit_fn(cx, specs, em, ex, &file, &fd, None);
        return;
    }
    emit_fn(cx, specs, em, ex, &file, &found[0], None);
}

/// `extract trait <file> <Trait>`: the trait declaration with the bodies of its default methods (Verus supports default methods with contracts)
fn extract_trait(cx: &mut Ctx, specs: &mut Specs, em: &mut Emitter, ex: &Extract) {
    let Some(file) = cx.file(&ex.file) else { return; };
    let mut items = vec![]; all_items(&file.items, &mut items);
    let Some(tr) = items.iter().find_map(|it| if let syn::Item::Trait(t) = it { if t.ident == ex.path.as_str() { Some(t.clone()) } else { None } } else { None }) else { cx.err(format!("lost anchor: trait `{}` in {}", ex.path, ex.file)); return; };
    let (g, w) = generics_text(&[&tr.generics], &[], cx);
    let sup = clean_bounds(&tr.supertraits, cx);
    let sup_txt = if sup.is_empty() { String::new() } else { format!(": {}", sup.iter().map(|b| tidy(&b.to_string())).collect::<Vec<_>>().join(" + ")) };
    em.comment(&format!("// @extracted trait `{}` from {}:{}", ex.path, ex.file, tr.ident.span().start().line));
    em.raw(&format!("pub trait {}{}{}{} {{", tr.ident, g, sup_txt, w));
    if let Some(extra) = specs.get(&format!("traititems {}", ex.path)) { em.raw_block(&extra, "    "); }
    let only: Option<Vec<String>> = ex.opt("only").map(|s| s.split(',').map(|x| x.to_string()).collect());
    for ti in &tr.items {
        if let syn::TraitItem::Fn(f) = ti {
            if let Some(o) = &only { if !o.contains(&f.sig.ident.to_string()) { continue; } }
            let mut e2 = ex.clone(); e2.kind = if f.default.is_some() { "fn".into() } else { "decl".into() }; e2.path = format!("{}::{}", ex.path, f.sig.ident);
            let fd = Found { im: None, tr: None, f: FnLike { attrs: f.attrs.clone(), sig: f.sig.clone(), block: f.default.clone().unwrap_or_else(|| syn::parse_quote!({})) } };
            emit_fn(cx, specs, em, &e2, &file, &fd, Some(ex.path.clone()));
        }
    }
    em.raw("}");
    em.raw("");
    flush_pending(cx, specs, em);
}

/// `extract traitimpl <file> <Trait>@<Type>`: one impl block with all (or `only=a,b`) methods
fn extract_traitimpl(cx: &mut Ctx, specs: &mut Specs, em: &mut Emitter, ex: &Extract) {
    let Some(file) = cx.file(&ex.file) else { return; };
    let mut items = vec![]; all_items(&file.items, &mut items);
    let Some((trn, tyn)) = ex.path.split_once('@') else { cx.err(format!("unit file: traitimpl path `{}` must be Trait@Type", ex.path)); return; };
    let cands: Vec<syn::ItemImpl> = items.iter().filter_map(|it| if let syn::Item::Impl(im) = it { if trait_head(im).as_deref() == Some(trn) && type_head(&im.self_ty) == tyn { Some(im.clone()) } else { None } } else { None }).collect();
    if cands.len() != 1 { cx.err(format!("lost anchor: impl {} for {} in {}: {} candidates", trn, tyn, ex.file, cands.len())); return; }
    let im = &cands[0];
    let (ig, iw) = generics_text(&[&im.generics], &[], cx);
    let mut st = (*im.self_ty).clone(); rewrite::map_type(&mut st, cx);
    let mut tp = im.trait_.as_ref().unwrap().1.clone(); rewrite::map_path_types(&mut tp, cx);
    em.comment(&format!("// @extracted traitimpl `{}` from {}:{}", ex.path, ex.file, im.impl_token.span.start().line));
    em.raw(&format!("impl{} {} for {}{} {{", ig, tidy(&tp.to_token_stream().to_string()), tidy(&st.to_token_stream().to_string()), iw));
    if let Some(extra) = specs.get(&format!("implitems {}", ex.path)) { em.raw_block(&extra, "    "); }
    let only: Option<Vec<String>> = ex.opt("only").map(|s| s.split(',').map(|x| x.to_string()).collect());
    for ii in &im.items {
        if let syn::ImplItem::Fn(f) = ii {
            if let Some(o) = &only { if !o.contains(&f.sig.ident.to_string()) { continue; } }
            let mut e2 = ex.clone(); e2.kind = "fn".into(); e2.path = format!("{}::{}", ex.path, f.sig.ident);
            let mut im2 = im.clone(); im2.items.clear();
            let fd = Found { im: Some(im2), tr: None, f: FnLike { attrs: f.attrs.clone(), sig: f.sig.clone(), block: f.block.clone() } };
            emit_fn(cx, specs, em, &e2, &file, &fd, Some(ex.path.clone()));
        }
    }
    em.raw("}");
    em.raw("");
    flush_pending(cx, specs, em);
}
fn flush_pending(cx: &mut Ctx, specs: &mut Specs, em: &mut Emitter) {
    let mut work = std::mem::take(&mut cx.pending);
    while !work.is_empty() {
        let (gens, lc, file) = work.remove(0);
        let grefs: Vec<&syn::Generics> = gens.iter().collect();
        let more = emit_lifted(cx, specs, em, &grefs, &lc, &file);
        for m in more { work.push((gens.clone(), m, file.clone())); }
    }
}

fn emit_fn(cx: &mut Ctx, specs: &mut Specs, em: &mut Emitter, ex: &Extract, file: &syn::File, fd: &Found, in_trait: Option<String>) {
    em.file_ranges = cx.file_ranges.clone();
    let base_name = ex.path.rsplit("::").next().unwrap().to_string();
    let mut f = fd.f.clone();
    // H1: calls of helper functions an edit split off (not in the pinned tree's list of function names) are replaced by their bodies
    if !cx.baseline_fns.is_empty() {
        // (in a default method of a trait only free functions of the file are candidates)
        let head = if fd.tr.is_some() { None } else { fd.im.as_ref().map(|im| type_head(&im.self_ty)) };
        // (the list is per file: `<file> <name>`)
        let here: BTreeSet<String> = cx.baseline_fns.iter().filter_map(|l| l.strip_prefix(&format!("{} ", ex.file)).map(|n| n.to_string())).collect();
        let helpers = rewrite::new_helpers(file, head.as_deref(), &here);
        let owns_self = matches!(f.sig.receiver(), Some(r) if r.reference.is_none());
        rewrite::inline_new_helpers(&mut f.block, &helpers, owns_self, cx);
    }
    let mut tr_generics: Option<syn::Generics> = None;
    if let Some(tr) = &fd.tr {
        // S3: a default method of a trait becomes a free function over `SelfT: Trait`
        cx.fire("S3");
        f.sig = syn::parse2(rename_self(f.sig.to_token_stream())).expect("sig");
        f.block = syn::parse2(rename_self(f.block.to_token_stream())).expect("block");
        let tg: syn::Generics = syn::parse2(rename_self(tr.generics.to_token_stream())).expect("generics");
        let tname = &tr.ident;
        let targs: Vec<TokenStream> = tg.params.iter().filter_map(|p| match p { syn::GenericParam::Type(t) => Some(t.ident.to_token_stream()), _ => None }).collect();
        let bound: TokenStream = if targs.is_empty() { quote!(#tname) } else { quote!(#tname<#(#targs),*>) };
        let mut g: syn::Generics = syn::parse_quote!(<SelfT: #bound>);
        for p in tg.params.iter() { g.params.push(p.clone()); }
        tr_generics = Some(g);
    }
    let src_line = f.sig.ident.span().start().line;
    // P4: parameters are matched to the pinned names by position: a renamed parameter is renamed back, so that contracts (which have to
    // name parameters) stay attached
    {
        let key = format!("{}::{}{}", ex.file, ex.path, ex.opt("nth").map(|n| format!("#{}", n)).unwrap_or_default());
        let names: Vec<Option<String>> = f.sig.inputs.iter().filter_map(|a| if let syn::FnArg::Typed(pt) = a { Some(if let syn::Pat::Ident(pi) = &*pt.pat { Some(pi.ident.to_string()) } else { None }) } else { None }).collect();
        cx.dump_params.insert(key.clone(), names.iter().map(|n| n.clone().unwrap_or_else(|| "_".to_string())).collect());
        if let Some(pinned) = cx.params.get(&key).cloned() { if pinned.len() == names.len() {
            let mut pairs: Vec<(String, String)> = vec![];
            for (have, want) in names.iter().zip(pinned.iter()) { if let Some(h) = have { if h != want && want != "_" { pairs.push((h.clone(), want.clone())); } } }
            // only if the new names do not collide with anything else in the function
            // an identifier used as a VARIABLE: not a field / method name after `.`, not a field label `name: ..` of a struct literal or pattern
            fn has_ident(ts: TokenStream, w: &str) -> bool {
                let v: Vec<proc_macro2::TokenTree> = ts.into_iter().collect();
                for i in 0..v.len() { match &v[i] {
                    proc_macro2::TokenTree::Ident(id) if id == w => {
                        let after_dot = i > 0 && matches!(&v[i - 1], proc_macro2::TokenTree::Punct(p) if p.as_char() == '.');
                        let label = matches!(v.get(i + 1), Some(proc_macro2::TokenTree::Punct(p)) if p.as_char() == ':' && p.spacing() == proc_macro2::Spacing::Alone);
                        if !after_dot && !label { return true; }
                    }
                    proc_macro2::TokenTree::Group(g) => { if has_ident(g.stream(), w) { return true; } }
                    _ => {}
                } }
                false
            }
            let collide = pairs.iter().any(|(_, w)| has_ident(f.block.to_token_stream(), w) || names.iter().any(|n| n.as_deref() == Some(w.as_str())));
            if !pairs.is_empty() && !collide {
                let mut sig_ts = f.sig.to_token_stream(); let mut blk_ts = f.block.to_token_stream();
                for (h, w) in &pairs { sig_ts = rename_ident(sig_ts, h, w); blk_ts = rename_ident(blk_ts, h, w); }
                if let (Ok(sg), Ok(bl)) = (syn::parse2::<syn::Signature>(sig_ts), syn::parse2::<syn::Block>(blk_ts)) { f.sig = sg; f.block = bl; cx.fire("P4"); }
            }
        } }
    }

    // A3: lift the k-th async block
    let mut deferred_errs: Vec<String> = vec![];   // (raised once the function has its name, so that they count against this function only)
    let mut captured: Vec<(String, syn::Type)> = vec![];
    let mut lifted = false;
    let mut ret_ty: Option<syn::Type> = match &f.sig.output { syn::ReturnType::Type(_, t) => Some((**t).clone()), syn::ReturnType::Default => None };
    let mut name = ex.opt("name").unwrap_or_else(|| base_name.clone());
    let mut is_async = f.sig.asyncness.is_some();
    if ex.kind == "asyncblock" {
        let k: usize = ex.opt("k").and_then(|s| s.parse().ok()).unwrap_or(0);
        let blocks = rewrite::find_async_blocks(&f.block);
        let Some(ab) = blocks.get(k) else { cx.err(format!("lost anchor: async block {} of {} in {}", k, ex.path, ex.file)); return; };
        cx.fire("A3");
        lifted = true; is_async = true;
        name = ex.opt("name").unwrap_or_else(|| format!("{}__async{}", base_name, k));
        ret_ty = match ex.opt("ret") { Some(r) => syn::parse_str(&r).ok(), None => ret_ty.as_ref().and_then(future_output) };
        if ret_ty.is_none() { cx.err(format!("outside dialect: cannot determine the output type of async block {} of {}", k, ex.path)); return; }
        f.block = ab.block.clone();
        // captured self fields (Rust 2021 disjoint capture): self.<field> places mentioned in the block
        let fields = rewrite::self_fields_used(&f.block);
        if !fields.is_empty() {
            let self_name = fd.im.as_ref().map(|im| type_head(&im.self_ty)).unwrap_or_default();
            let Some(defs) = struct_fields(file, &self_name) else { cx.err(format!("lost anchor: struct {} in {}", self_name, ex.file)); return; };
            for (n, t) in defs { if fields.contains(&n) { captured.push((n, t)); } }
            if fields.iter().any(|n| n == "self") { deferred_errs.push(format!("outside dialect: async block {} of {} captures `self` as a whole", k, ex.path)); }
        }
    }
    // from here on errors belong to this function (its name in the generated file and in the map)
    let final_name = if let Some(k) = ex.opt("key") { k } else if (!lifted && fd.im.is_some()) || in_trait.is_some() { ex.path.clone() } else { name.clone() };
    cx.cur_fn = final_name.clone();
    for e in deferred_errs { cx.err(e); }
    let drop_this = cx.dropbody.contains(&final_name);
    // A6: `impl Future for T { fn poll(self: Pin<&mut Self>, cx) -> Poll<O> { <place>.poll_unpin(cx).map(|p| F) } }` -> `fn await_(&mut self) -> O { let p = <place>.poll_ready(); F }`
    if ex.opt("poll").as_deref() == Some("yes") {
        match rewrite::a6_poll_to_await(&mut f, cx) { true => { cx.fire("A6"); ret_ty = match &f.sig.output { syn::ReturnType::Type(_, t) => Some((**t).clone()), _ => None };
            // `Self::Output` is the associated type of the Future impl
            if ret_ty.as_ref().map(|t| nospace(&t.to_token_stream().to_string()) == "Self::Output").unwrap_or(false) {
                if let Some(im) = &fd.im { for ii in &im.items { if let syn::ImplItem::Type(t) = ii { if t.ident == "Output" { ret_ty = Some(t.ty.clone()); } } } }
            } } false => { cx.err(format!("outside dialect: `{}` is not of the A6 poll shape", ex.path)); return; } }
    }
    // A5: fn returning impl Future whose body is a single async block / eager call
    if !is_async { if let Some(rt) = &ret_ty { if let syn::Type::ImplTrait(_) = rt { if let Some(out) = future_output(rt) {
        if rewrite::a5_normalise(&mut f.block, cx) { ret_ty = Some(out); is_async = true; cx.fire("A5"); }
        else { cx.err(format!("outside dialect: `{}` returns impl Future but its body is not one of the A5 shapes", ex.path)); }
    } } } }
    let _ = is_async;

    // ---- body rewrite
    let mut binders = rewrite::collect_binders_sig(&f.sig);
    rewrite::collect_binders_block(&f.block, &mut binders);
    let ghost = ex.opt("ghost").unwrap_or_else(|| "mut".to_string());
    let recv = f.sig.receiver().cloned();
    let mut_self = recv.as_ref().map(|r| r.reference.is_none() && r.mutability.is_some()).unwrap_or(false);
    let mut rw = Rw::new(cx, lifted, binders, name.clone());
    rw.self_to_this = (mut_self && !lifted) || (fd.tr.is_some() && fd.im.is_none() && recv.is_some());
    rw.self_by_value = recv.as_ref().map(|r| r.reference.is_none()).unwrap_or(false) && !lifted;
    rw.lift_prefix = { let p = match ex.opt("key") { Some(k) => k.replace("::", "__").replace('@', "_"), None => ex.path.rsplit('@').next().unwrap().replace("::", "__") }; let p: String = p.chars().map(|c| if c.is_ascii_alphanumeric() || c == '_' { c } else { '_' }).collect(); if lifted { format!("{}__async", p) } else { p } };
    rw.typed_ctors = specs.sections.keys().filter_map(|k| k.strip_prefix("sig ").map(|s| s.to_string())).collect();
    rw.ctor_param_names = ctor_param_names_of(specs);
    rw.typed_caps = specs.sections.keys().filter_map(|k| k.strip_prefix("captype ").map(|s| s.to_string())).collect();
    for inp in &f.sig.inputs { if let syn::FnArg::Typed(pt) = inp { if let syn::Pat::Ident(pi) = &*pt.pat { if let syn::Type::ImplTrait(it) = &*pt.ty { if it.bounds.iter().any(|b| if let syn::TypeParamBound::Trait(tb) = b { tb.path.segments.last().map(|s| s.ident == "Into").unwrap_or(false) } else { false }) { rw.into_params.insert(pi.ident.to_string()); } } } } }
    for inp in &f.sig.inputs { if let syn::FnArg::Typed(pt) = inp { if let syn::Pat::Ident(pi) = &*pt.pat { let mut ty = (*pt.ty).clone(); let mut lt = vec![]; rewrite::map_param_type(&mut ty, rw.cx, &mut lt); rw.local_types.insert(pi.ident.to_string(), tidy(&ty.to_token_stream().to_string())); } } }
    rw.gen_idents = {
        let mut gs: Vec<syn::Generics> = vec![]; if let Some(im) = &fd.im { gs.push(im.generics.clone()); } if let Some(g) = &tr_generics { gs.push(g.clone()); } gs.push(f.sig.generics.clone());
        let grefs: Vec<&syn::Generics> = gs.iter().collect();
        let cl = closure_generics(&grefs, rw.cx);
        gs.iter().flat_map(|g| g.params.iter().filter_map(|p| if let syn::GenericParam::Type(t) = p { Some(t.ident.to_string()) } else { None }).collect::<Vec<_>>()).filter(|n| !cl.contains_key(n)).collect()
    };
    let mut block = f.block.clone();
    if ex.kind == "stub" || ex.kind == "decl" { block = syn::parse_quote!({}); }   // only the signature and the contract of a stub are used
    // C1r: an Option/Result adapter chain in tail position of a function that returns a Result works on a Result
    { let rt = ret_ty.as_ref().map(|t| nospace(&t.to_token_stream().to_string())).unwrap_or_default();
      let is_res = ["Result<", "DynResult<", "crate::error::Result<", "crate::DynResult<", "crate::Result<"].iter().any(|p| rt.starts_with(p));
      if is_res { if let Some(syn::Stmt::Expr(syn::Expr::MethodCall(m), None)) = block.stmts.last_mut() { let n = m.method.to_string(); if (n == "map" || n == "and_then") && m.args.len() == 1 { m.method = syn::Ident::new(&format!("{}__hxres", n), m.method.span()); } } } }
    // G7 (unit directive `nohold`): a strong handle from an upgrade that is still in scope at a sleep
    { let rules = rw.cx.unit.nohold.clone(); for (ups, sleeps, marker) in rules { if rewrite::mark_held_across(&mut block, &ups, &sleeps, &marker) > 0 { rw.cx.fire("G7"); } } }
    rw.visit_block_mut(&mut block);
    let nloops = rw.loops;
    let g6_sites = rw.g6_sites;
    let lifted_closures = std::mem::take(&mut rw.lifted_closures);
    drop(rw);
    if mut_self && !lifted { cx.fire("S1"); let st: syn::Stmt = syn::parse_quote!(let mut this = self;); block.stmts.insert(0, st); }
    // `@proof F before <callee>`: proof text placed before every top-level statement of the body that calls <callee>
    {
        let fkey = if let Some(k) = ex.opt("key") { k } else if (!lifted && fd.im.is_some()) || in_trait.is_some() { ex.path.clone() } else { name.clone() };
        let keys: Vec<String> = specs.sections.keys().filter(|k| k.starts_with(&format!("proof {} before ", fkey))).cloned().collect();
        for key in keys {
            let callee = key.rsplit(' ').next().unwrap().to_string();
            let txt = specs.get(&key).unwrap_or_default();
            struct Calls<'a>(&'a str, bool);
            impl<'a, 'b> syn::visit::Visit<'b> for Calls<'a> {
                fn visit_expr_method_call(&mut self, m: &'b syn::ExprMethodCall) { if m.method == self.0 { self.1 = true; } syn::visit::visit_expr_method_call(self, m); }
                fn visit_expr_call(&mut self, c: &'b syn::ExprCall) { if let syn::Expr::Path(p) = &*c.func { if p.path.segments.last().map(|s| s.ident == self.0).unwrap_or(false) { self.1 = true; } } syn::visit::visit_expr_call(self, c); }
            }
            let mut idxs = vec![];
            for (i, st) in block.stmts.iter().enumerate() { let mut c = Calls(&callee, false); syn::visit::Visit::visit_stmt(&mut c, st); if c.1 && !matches!(st, syn::Stmt::Expr(syn::Expr::Loop(_), _) | syn::Stmt::Expr(syn::Expr::While(_), _) | syn::Stmt::Expr(syn::Expr::ForLoop(_), _)) { idxs.push(i); } }
            if idxs.is_empty() { cx.soft.push(format!("lost anchor: `@{}`: no top-level statement of `{}` calls `{}`", key, fkey, callee)); }
            for i in idxs.into_iter().rev() { let k = em.prooftexts.len(); em.prooftexts.push(txt.clone()); let lit = proc_macro2::Literal::usize_unsuffixed(k); let st: syn::Stmt = syn::parse_quote!(__hx_prooftext(#lit);); block.stmts.insert(i, st); cx.fire("PB"); }
        }
    }

    // ---- probes (vacuity guard, DESIGN §6 step 4)
    let mut probes: Vec<(usize, String)> = vec![];
    if cx.probe { rewrite::insert_probes(&mut block, &name, em, &mut probes); }

    // ---- signature
    let mut params: Vec<String> = vec![];
    let mut lifetimes: Vec<String> = vec![];
    if !lifted {
        if let Some(r) = &recv {
            let s = if r.reference.is_some() { if r.mutability.is_some() { "&mut self" } else { "&self" } } else { "self" };
            // S3: the default body of a trait method with a receiver is emitted as a free function over `this: &mut SelfT`
            if fd.tr.is_some() && fd.im.is_none() { let t = if r.reference.is_some() { if r.mutability.is_some() { "this: &mut SelfT" } else { "this: &SelfT" } } else { "this: SelfT" }; params.push(t.to_string()); cx.fire("S3"); }
            else { params.push(s.to_string()); }
        }
    }
    for (n, t) in &captured { let mut t = t.clone(); rewrite::map_type(&mut t, cx); params.push(format!("mut self_{}: {}", n, tidy(&t.to_token_stream().to_string()))); }
    for inp in &f.sig.inputs {
        if let syn::FnArg::Typed(pt) = inp {
            let mut ty = (*pt.ty).clone();
            if let Some(r) = closure_generics(&[&f.sig.generics], cx).get(&nospace(&ty.to_token_stream().to_string())) { match syn::parse_str::<syn::Type>(r) { Ok(t) => ty = t, Err(e) => cx.err(format!("unit file: generic replacement `{}`: {}", r, e)) } }
            rewrite::map_param_type(&mut ty, cx, &mut lifetimes);
            let mut pat = tidy(&pt.pat.to_token_stream().to_string());
            if pat == "_" { pat = format!("_hx_arg{}", params.len()); cx.fire("P2"); }
            if !matches!(&*pt.pat, syn::Pat::Ident(_) | syn::Pat::Wild(_)) {
                // P3: a destructuring parameter becomes a plain parameter plus a `let` at the start of the body
                let nm = format!("hx_arg{}", params.len()); let id = syn::Ident::new(&nm, proc_macro2::Span::call_site()); let p = &pt.pat;
                let st: syn::Stmt = syn::parse_quote!(let #p = #id;); block.stmts.insert(0, st); pat = nm; cx.fire("P3");
            }
            if lifted { // only parameters the block mentions are captured
                let id = match &*pt.pat { syn::Pat::Ident(pi) => pi.ident.to_string(), _ => String::new() };
                if !rewrite::mentions_ident(&f.block, &id) { continue; }
            }
            params.push(format!("{}: {}", pat, tidy(&ty.to_token_stream().to_string())));
        }
    }
    match ghost.as_str() { "mut" => params.push("Tracked(w): Tracked<&mut World>".into()), "ref" => params.push("Tracked(w): Tracked<&World>".into()), _ => {} }
    let mut gens: Vec<&syn::Generics> = vec![];
    let impl_gen; let tr_gen;
    if lifted || fd.im.is_none() { if let Some(im) = &fd.im { impl_gen = im.generics.clone(); gens.push(&impl_gen); } }
    if let Some(g) = &tr_generics { tr_gen = g.clone(); gens.push(&tr_gen); }
    gens.push(&f.sig.generics);
    let (gtxt, mut wtxt) = generics_text(&gens, &lifetimes, cx);
    if let Some(w) = specs.get(&format!("where {}", name)) { let w = w.trim(); if !w.is_empty() { wtxt = if wtxt.is_empty() { format!("\n    where {}", w) } else { format!("{}, {}", wtxt, w) }; } }
    let ret = match &ret_ty { Some(t) => { let mut t = t.clone(); rewrite::map_type(&mut t, cx); format!(" -> (r: {})", tidy(&t.to_token_stream().to_string())) } None => String::new() };

    let in_impl = !lifted && fd.im.is_some();
    let in_trait_impl = in_impl && fd.im.as_ref().unwrap().trait_.is_some();
    let name = if let Some(k) = ex.opt("key") { k } else if in_impl || in_trait.is_some() { ex.path.clone() } else { name };
    let fn_ident = if let Some(r) = ex.opt("rename") { r } else if in_impl || in_trait.is_some() { f.sig.ident.to_string() } else { name.clone() };
    let indent = if in_impl || in_trait.is_some() { "    " } else { "" };

    // K1: a file-level `const NAME: T = <literal>;` the body refers to is extracted with it (once)
    {
        struct C { names: BTreeSet<String> }
        impl<'ast> syn::visit::Visit<'ast> for C { fn visit_path(&mut self, p: &'ast syn::Path) { if let Some(id) = p.get_ident() { let n = id.to_string(); if n.len() > 1 && n.chars().all(|c| c.is_ascii_uppercase() || c.is_ascii_digit() || c == '_') && n.chars().next().unwrap().is_ascii_uppercase() { self.names.insert(n); } } syn::visit::visit_path(self, p); } }
        let mut c = C { names: BTreeSet::new() };
        syn::visit::Visit::visit_block(&mut c, &block);
        let mut items = vec![]; all_items(&file.items, &mut items);
        for n in c.names { if cx.consts_done.contains(&n) { continue; }
            for it in &items { if let syn::Item::Const(k) = it { if k.ident == n.as_str() {
                let lit = matches!(&*k.expr, syn::Expr::Lit(_));
                if lit { let mut t = (*k.ty).clone(); rewrite::map_type(&mut t, cx);
                    em.comment(&format!("// @extracted const `{}` from {}:{}", n, ex.file, k.ident.span().start().line));
                    em.raw(&format!("pub const {}: {} = {};", n, tidy(&t.to_token_stream().to_string()), tidy(&k.expr.to_token_stream().to_string()))); em.raw(""); cx.fire("K1"); cx.consts_done.insert(n.clone()); }
            } } }
        }
    }
    // ---- emit
    em.comment(&format!("// @extracted {} `{}` from {}:{} as `{}`{}", ex.kind, ex.path, ex.file, src_line, name, if captured.is_empty() { String::new() } else { format!(" captures self.{{{}}}", captured.iter().map(|c| c.0.clone()).collect::<Vec<_>>().join(",")) }));
    let wrap = in_impl && in_trait.is_none();
    if wrap {
        let im = fd.im.as_ref().unwrap();
        let (ig, iw) = generics_text(&[&im.generics], &[], cx);
        let mut st = (*im.self_ty).clone(); rewrite::map_type(&mut st, cx);
        let head = match &im.trait_ { Some((_, p, _)) => { let mut p = p.clone(); rewrite::map_path_types(&mut p, cx); format!("impl{} {} for {}{}", ig, tidy(&p.to_token_stream().to_string()), tidy(&st.to_token_stream().to_string()), iw) } None => format!("impl{} {}{}", ig, tidy(&st.to_token_stream().to_string()), iw) };
        em.raw(&format!("{} {{", head));
        if in_trait_impl { if let Some(extra) = specs.get(&format!("implitems {}", name)) { em.raw_block(&extra, "    "); } }
    }
    if nloops > 0 || specs.get(&format!("nodecreases {}", name)).is_some() { em.raw(&format!("{}#[verifier::exec_allows_no_decreases_clause]", indent)); }
    // what is known before a loop about variables the loop does not assign stays known inside it (an edit that names a value before
    // the loop instead of inside it must not lose the proof)
    // (Verus allows this only for plain `invariant` loop contracts)
    let plain_loops = (0..nloops).all(|k| !specs.get(&format!("loop {} {}", name, k)).unwrap_or_default().lines().any(|l| { let t = l.trim(); t == "invariant_except_break" || t == "ensures" }));
    if nloops > 0 && plain_loops { em.raw(&format!("{}#[verifier::loop_isolation(false)]", indent)); }
    if let Some(attrs) = specs.get(&format!("attrs {}", name)) { em.raw_block(&attrs, indent); }
    let vis = if in_trait_impl || in_trait.is_some() { "" } else { "pub " };
    let is_stub = ex.kind == "stub";
    let is_decl = ex.kind == "decl";
    if is_stub { em.raw(&format!("{}#[verifier::external_body] // @stub contract proved in another unit", indent)); }
    if drop_this && !is_stub && !is_decl { em.raw(&format!("{}#[verifier::external_body] // @dropped: this body is outside the dialect on this tree; its contract is assumed for the rest of the unit and its own obligations are undecided", indent)); cx.dropped.push(final_name.clone()); }
    let fn_start = em.line();
    em.raw(&format!("{}{}fn {}{}({}){}{}", indent, vis, fn_ident, gtxt, params.join(", "), ret, wtxt));
    match specs.get(&format!("fn {}", name)) { Some(s) => em.raw_block(&s, ""), None => { if is_stub { cx.err(format!("lost anchor: stub `{}` has no contract section", name)); } } }
    // `$B<k>`: the k-th binder of the ORIGINAL body in source order (before any rewriting renames nothing, so the names are the code's)
    let obinders = rewrite::ordered_binders(&f.block);
    // `$B<k>~<name>`: the binder called <name> if the body has one, otherwise the k-th binder (a rename); `$B<k>` alone: the k-th binder
    let bsub = |t: String| -> String {
        let mut out = String::new(); let b = t.as_bytes(); let mut i = 0;
        while i < b.len() {
            if b[i] == b'$' && i + 2 < b.len() && b[i + 1] == b'B' && b[i + 2].is_ascii_digit() {
                let mut j = i + 2; while j < b.len() && b[j].is_ascii_digit() { j += 1; }
                let k: usize = t[i + 2..j].parse().unwrap_or(usize::MAX);
                let mut name: Option<String> = None;
                if j < b.len() && b[j] == b'~' { let mut e = j + 1; while e < b.len() && (b[e].is_ascii_alphanumeric() || b[e] == b'_') { e += 1; } name = Some(t[j + 1..e].to_string()); j = e; }
                let pick = match &name { Some(n) if obinders.contains(n) => Some(n.clone()), _ => obinders.get(k).cloned() };
                match pick { Some(n) => out.push_str(&n), None => out.push_str(&t[i..j]) }
                i = j;
            } else { out.push(b[i] as char); i += 1; }
        }
        out
    };
    let proof_entry = entry_text(cx, specs.get(&format!("proof {} entry", name)).map(|t| bsub(t)));
    let mut loopspecs: BTreeMap<usize, (String, Option<String>, Option<String>)> = BTreeMap::new();
    // G5: an immutable local initialised from a place (`let timeout = self.config.timeout;`) before a loop keeps that value inside it;
    // Verus forgets such facts at loop heads, so they are added to the invariants of the function's loops (only if nothing under the
    // same root is ever assigned in the function)
    let frame_facts = rewrite::immutable_place_lets(&block);
    for k in 0..nloops {
        let mut inv = bsub(specs.get(&format!("loop {} {}", name, k)).unwrap_or_default());
        if inv.contains("$B") { cx.soft.push(format!("lost anchor: loop {} of `{}` names a binder (`$B..`) the body no longer has", k, name)); }
        if inv.trim().is_empty() && !is_stub && !is_decl && !drop_this { cx.soft.push(format!("lost anchor: loop {} of `{}` has no loop contract (a loop was added to the code); what the verifier says about this function is not a verdict", k, name)); cx.uncontracted.push(name.clone()); }
        if !frame_facts.is_empty() && !inv.trim().is_empty() {
            let mut lines: Vec<String> = inv.lines().map(|l| l.to_string()).collect();
            if let Some(pos) = lines.iter().position(|l| { let t = l.trim(); t == "invariant" || t == "invariant_except_break" }) {
                let ind: String = lines.get(pos + 1).map(|l| l.chars().take_while(|c| c.is_whitespace()).collect()).unwrap_or_else(|| "        ".into());
                lines.insert(pos + 1, format!("{}{},   // @ob hx.immutable-local-keeps-its-value -", ind, frame_facts.iter().map(|(a, b)| format!("{} == {}", a, b)).collect::<Vec<_>>().join(", ")));
                inv = lines.join("\n"); cx.fire("G5");
            }
        }
        loopspecs.insert(k, (inv, entry_text(cx, specs.get(&format!("proof {} loop {} start", name, k)).map(|t| bsub(t))), specs.get(&format!("proof {} loop {} end", name, k)).map(|t| bsub(t))));
    }
    if is_decl { em.raw(&format!("{};", indent)); }
    else if is_stub || drop_this { em.raw(&format!("{}{{ unimplemented!() }}", indent)); } else { em.body(&block, if in_impl || in_trait.is_some() { 1 } else { 0 }, &ex.file, proof_entry.as_deref(), &loopspecs); }
    if wrap { em.raw("}"); }
    let fn_end = em.line();
    em.functions.push(emit::FnInfo { name: name.clone(), file: ex.file.clone(), src_line, gen_start: fn_start, gen_end: fn_end, kind: ex.kind.clone(), path: ex.path.clone(), loops: nloops, captured: captured.iter().map(|c| c.0.clone()).collect() });
    for (id, wh) in probes { em.probes.push((id, name.clone(), wh)); }
    em.raw("");
    // G6 sites are facts about the shape of the source: each is also stated by a marker function of its own, so that it is still
    // reported when the body itself has to be left out
    for k in 0..g6_sites {
        let mname = format!("{}__guard_across_await_site{}", name.replace("::", "__").replace(|c: char| !(c.is_ascii_alphanumeric() || c == '_'), "_"), k);
        let st = em.line();
        em.raw(&format!("pub fn {}() {{ hx_guard_shape_marker(); }}   // the lock guard of `{}` that stays alive across an await", mname, name));
        em.functions.push(emit::FnInfo { name: mname, file: ex.file.clone(), src_line, gen_start: st, gen_end: em.line(), kind: "fn".into(), path: ex.path.clone(), loops: 0, captured: vec![] });
        em.raw("");
    }
    // ---- what a lifted loop future captures (its parameters ARE its capture list): obligations on their joined ownership view
    if lifted { if let Some(cl) = specs.get(&format!("captures {}", name)) {
        let ps: Vec<String> = params.iter().filter(|p| !p.starts_with("Tracked(")).map(|p| p.trim_start_matches("mut ").to_string()).collect();
        let names: Vec<String> = ps.iter().map(|p| p.split(':').next().unwrap().trim().to_string()).collect();
        let mut own = String::from("own_none()"); for n in &names { own = format!("own_join({}, own_of(&{}))", own, n); }
        let start = em.line();
        em.raw(&format!("pub open spec fn {}__captured_view{}({}) -> Own{} {{ {} }}", name, gtxt, ps.join(", "), wtxt, own));
        em.raw(&format!("pub proof fn {}__captures{}({}){}", name, gtxt, ps.join(", "), wtxt));
        let gi: Vec<String> = { let clg = closure_generics(&gens, cx); gens.iter().flat_map(|g| g.params.iter().filter_map(|p| if let syn::GenericParam::Type(t) = p { Some(t.ident.to_string()) } else { None }).collect::<Vec<_>>()).filter(|n| !clg.contains_key(n)).collect() };
        let tf = if gi.is_empty() { String::new() } else { format!("::<{}>", gi.join(", ")) };
        em.raw_block(&cl.replace("$VIEW", &format!("{}__captured_view{}({})", name, tf, names.join(", "))), "");
        em.raw(&format!("{{ {} }}", if cx.unit.broadcasts.is_empty() { String::new() } else { format!("broadcast use {};", cx.unit.broadcasts.join(", ")) }));
        em.functions.push(emit::FnInfo { name: format!("{}__captures", name), file: ex.file.clone(), src_line, gen_start: start, gen_end: em.line(), kind: "fn".into(), path: ex.path.clone(), loops: 0, captured: captured.iter().map(|c| c.0.clone()).collect() });
        em.raw("");
    } }
    cx.cur_fn = String::new();
    // ---- closures / async blocks used as values (rules L1, A3)
    let mut all_gens: Vec<&syn::Generics> = vec![];
    let ig2; if let Some(im) = &fd.im { ig2 = im.generics.clone(); all_gens.push(&ig2); }
    if let Some(g) = &tr_generics { all_gens.push(g); }
    all_gens.push(&f.sig.generics);
    if in_trait.is_some() {
        let owned: Vec<syn::Generics> = all_gens.iter().map(|g| (*g).clone()).collect();
        for lc in lifted_closures { cx.pending.push((owned.clone(), lc, ex.file.clone())); }
        return;
    }
    let mut work: Vec<(rewrite::LiftedClosure, String)> = lifted_closures.into_iter().map(|l| (l, final_name.clone())).collect();
    while !work.is_empty() {
        let (lc, encl) = work.remove(0);
        cx.cur_encl = encl;
        let more = emit_lifted(cx, specs, em, &all_gens, &lc, &ex.file);
        cx.cur_encl = String::new();
        for m in more { work.push((m, lc.name.clone())); }
    }
}

fn entry_text(cx: &Ctx, extra: Option<String>) -> Option<String> {
    let mut t = String::new();
    if !cx.unit.broadcasts.is_empty() { t.push_str(&format!("broadcast use {};\n", cx.unit.broadcasts.join(", "))); }
    if let Some(e) = extra { t.push_str(&e); }
    if t.is_empty() { None } else { Some(t) }
}
fn fnv(s: &str) -> u64 { let mut h: u64 = 0xcbf29ce484222325; for b in s.bytes() { h ^= b as u64; h = h.wrapping_mul(0x100000001b3); } h % 1_000_000_007 }

/// constructor stand-in (what the code object owns) and, if the spec gives a signature, the lifted body as a function under contract
/// `$0`, `$1`, .. in the contract sections of a lifted closure stand for its captures in capture order (so that renaming a
/// captured variable does not detach the contract)
fn positional(txt: String, lc: &rewrite::LiftedClosure) -> String {
    let mut t = txt;
    let order = POS_ORDER.with(|p| p.borrow().clone());
    let caps: Vec<&String> = if order.is_empty() { lc.captures.iter().collect() } else { order.iter().filter_map(|i| lc.captures.get(*i)).collect() };
    // L1t: the enclosing scope gives the capture a type other than the one the contract signature declares for `$k` (the captured value
    // was wrapped or replaced): the signature takes the type the code has; the contract's clauses go through its view functions
    let idxs: Vec<usize> = if order.is_empty() { (0..lc.captures.len()).collect() } else { order.clone() };
    let norm = |x: &str| -> String { let x: String = x.chars().filter(|c| !c.is_whitespace()).collect(); x.trim_start_matches("&mut").trim_start_matches('&').to_string() };
    for (i, ci) in idxs.iter().enumerate() {
        let Some(known) = lc.cap_types.get(*ci).cloned().flatten().filter(|k| !k.starts_with('?') && k.contains('<')) else { continue; };
        let key = format!("${}:", i);
        let Some(pos) = t.find(&key) else { continue; };
        let start = pos + key.len(); let rest = &t[start..];
        let mut depth = 0i32; let mut len = 0usize;
        for ch in rest.chars() { match ch { '<' | '(' | '[' => depth += 1, '>' | ']' => depth -= 1, ')' => { if depth == 0 { break; } depth -= 1; } ',' if depth == 0 => break, _ => {} } len += ch.len_utf8(); }
        let declared = rest[..len].to_string();
        if norm(&declared) != norm(&known) {
            let d = declared.trim_start(); let prefix = if d.starts_with("&mut") { "&mut " } else if d.starts_with('&') { "&" } else { "" };
            eprintln!("hx: note: rule L1t: capture `{}` of `{}` has type `{}` now (contract signature: `{}`)", lc.captures[*ci], lc.name, known, declared.trim());
            t = format!("{} {}{}{}", &t[..start], prefix, known, &t[start + len..]);
        }
    }
    for (i, c) in caps.iter().enumerate().rev() { t = t.replace(&format!("${}", i), &(if c.as_str() == "self" { "this".to_string() } else { c.replace("self.", "self_") })); }
    // L1t for captures the signature names instead of numbering them
    if t.trim_start().starts_with('(') {
        for (ci, c) in lc.captures.iter().enumerate() {
            // (a bare type parameter of the enclosing function is not a type the lifted function can name)
            let Some(known) = lc.cap_types.get(ci).cloned().flatten().filter(|k| !k.starts_with('?') && k.contains('<')) else { continue; };
            if c.contains('.') || c == "self" { continue; }
            let key = format!("{}:", c);
            let mut from = 0usize; let mut hit: Option<usize> = None;
            while let Some(p) = t[from..].find(&key) { let at = from + p; let lb = at == 0 || !(t.as_bytes()[at - 1].is_ascii_alphanumeric() || t.as_bytes()[at - 1] == b'_'); if lb { hit = Some(at); break; } from = at + key.len(); }
            let Some(pos) = hit else { continue; };
            let start = pos + key.len(); let rest = &t[start..];
            let mut depth = 0i32; let mut len = 0usize;
            for ch in rest.chars() { match ch { '<' | '(' | '[' => depth += 1, '>' | ']' => depth -= 1, ')' => { if depth == 0 { break; } depth -= 1; } ',' if depth == 0 => break, _ => {} } len += ch.len_utf8(); }
            let declared = rest[..len].to_string();
            if norm(&declared) != norm(&known) {
                let d = declared.trim_start(); let prefix = if d.starts_with("&mut") { "&mut " } else if d.starts_with('&') { "&" } else { "" };
                eprintln!("hx: note: rule L1t: capture `{}` of `{}` has type `{}` now (contract signature: `{}`)", c, lc.name, known, declared.trim());
                t = format!("{} {}{}{}", &t[..start], prefix, known, &t[start + len..]);
            }
        }
    }
    t
}
thread_local! { static POS_ORDER: std::cell::RefCell<Vec<usize>> = std::cell::RefCell::new(vec![]); }
/// which capture each `$k` of a contract signature stands for: captures in capture order, skipping a capture whose type is known
/// from the enclosing scope and differs from the type the signature gives `$k` (a capture added in front of the contracted ones)
fn positional_order(sig: &str, lc: &rewrite::LiftedClosure) -> Vec<usize> {
    let norm = |t: &str| -> String { let t: String = t.chars().filter(|c| !c.is_whitespace()).collect(); t.trim_start_matches("&mut").trim_start_matches('&').to_string() };
    let mut want: Vec<String> = vec![];
    for k in 0..10 {
        let key = format!("${}:", k);
        let Some(pos) = sig.find(&key) else { break; };
        let rest = &sig[pos + key.len()..];
        let mut depth = 0i32; let mut ty = String::new();
        for ch in rest.chars() { match ch { '<' | '(' | '[' => { depth += 1; ty.push(ch); } '>' | ']' => { depth -= 1; ty.push(ch); } ')' => { if depth == 0 { break; } depth -= 1; ty.push(ch); } ',' if depth == 0 => break, _ => ty.push(ch) } }
        want.push(norm(&ty));
    }
    let mut order = vec![]; let mut ci = 0usize;
    for w in &want {
        while ci < lc.captures.len() {
            let known = lc.cap_types.get(ci).cloned().flatten().filter(|t| !t.starts_with('?'));
            let skip = match &known { Some(t) => norm(t) != *w, None => false };
            if skip && lc.captures.len() - ci > want.len() - order.len() { ci += 1; } else { break; }
        }
        if ci < lc.captures.len() { order.push(ci); ci += 1; }
    }
    // the captures no placeholder stands for follow, in capture order
    for i in 0..lc.captures.len() { if !order.contains(&i) { order.push(i); } }
    order
}
fn emit_lifted(cx: &mut Ctx, specs: &mut Specs, em: &mut Emitter, gens: &[&syn::Generics], lc: &rewrite::LiftedClosure, file: &str) -> Vec<rewrite::LiftedClosure> {
    // L1n: the closure's own parameters are matched to the contract signature by position (the last parameters of `@sig F`, in order):
    // a renamed closure parameter is renamed back to the contract's name in the lifted body
    let renamed: Option<rewrite::LiftedClosure>;
    let lc: &rewrite::LiftedClosure = {
        let mut out: Option<rewrite::LiftedClosure> = None;
        if let Some(sg) = specs.sections.get(&format!("sig {}", lc.name)).cloned() {
            let sg = sg.trim(); let head = match sg.rsplit_once("->") { Some((a, _)) if a.trim_end().ends_with(')') => a.trim(), _ => sg };
            let inner = head.trim_start_matches('(').trim_end_matches(')');
            let mut names = vec![]; let mut depth = 0i32; let mut cur = String::new();
            for ch in inner.chars() { match ch { '<' | '(' | '[' => { depth += 1; cur.push(ch); } '>' | ')' | ']' => { depth -= 1; cur.push(ch); } ',' if depth == 0 => { names.push(cur.clone()); cur.clear(); } _ => cur.push(ch) } }
            if !cur.trim().is_empty() { names.push(cur); }
            let names: Vec<String> = names.iter().map(|n| n.split(':').next().unwrap_or("").trim().trim_start_matches("mut ").to_string()).collect();
            let k = lc.inputs.len();
            if k > 0 && names.len() >= k {
                let want = &names[names.len() - k..];
                let mut pairs: Vec<(String, String)> = vec![];
                for (p, w) in lc.inputs.iter().zip(want.iter()) {
                    let have = match p { syn::Pat::Ident(pi) => Some(pi.ident.to_string()), syn::Pat::Type(pt) => if let syn::Pat::Ident(pi) = &*pt.pat { Some(pi.ident.to_string()) } else { None }, _ => None };
                    if let Some(h) = have { if &h != w && !w.starts_with('$') && !w.is_empty() { pairs.push((h, w.clone())); } }
                }
                if !pairs.is_empty() {
                    let mut l2 = lc.clone();
                    let mut body_ts = l2.body.to_token_stream();
                    for (h, w) in &pairs { body_ts = rename_ident(body_ts, h, w); }
                    l2.body = syn::parse2(body_ts).expect("closure body");
                    struct RP<'a>(&'a [(String, String)]);
                    impl<'a> syn::visit_mut::VisitMut for RP<'a> { fn visit_pat_ident_mut(&mut self, pi: &mut syn::PatIdent) { for (h, w) in self.0 { if pi.ident == h.as_str() { pi.ident = syn::Ident::new(w, pi.ident.span()); } } } }
                    for p in l2.inputs.iter_mut() { syn::visit_mut::VisitMut::visit_pat_mut(&mut RP(&pairs), p); }
                    cx.fire("L1n");
                    out = Some(l2);
                }
            }
        }
        renamed = out; match &renamed { Some(l) => l, None => lc }
    };
    let (gtxt_all, wtxt_all) = generics_text(gens, &[], cx);
    let kind = if lc.is_async_block { "async block" } else { "closure" };
    let sg0 = match specs.get(&format!("sig {}__new", lc.name)) { Some(s) => Some(s), None => specs.get(&format!("sig {}", lc.name)) };
    let order = match sg0 { Some(sg) => positional_order(&sg, lc), None => vec![] };
    POS_ORDER.with(|p| *p.borrow_mut() = order);
    em.comment(&format!("// @lifted {} `{}` from {}:{} captures [{}]{}", kind, lc.name, file, lc.line, lc.captures.join(", "), if lc.is_move { " (move)" } else { " (by reference)" }));
    // ---- constructor
    let ctor = format!("{}__new", lc.name);
    // L1r: the contract names a capture the closure literal no longer has (a capture was removed or replaced): the constructor is
    // emitted from the actual captures (so that the ownership obligations of the enclosing function decide), the clauses about the
    // missing capture are left out, and the closure's own body obligations are undecided (soft lost anchor)
    {
        let capn: BTreeSet<String> = lc.captures.iter().map(|c| if c == "self" { "this".to_string() } else { c.replace("self.", "self_") }).collect();
        let mut inputs = BTreeSet::new(); for p in &lc.inputs { rewrite::collect_binders_pat(p, &mut inputs); }
        let param_names = |sig: &str| -> Vec<String> {
            let sig = sig.trim(); let head = match sig.rsplit_once("->") { Some((a, _)) if a.trim_end().ends_with(')') => a.trim(), _ => sig };
            let inner = head.trim_start_matches('(').trim_end_matches(')');
            let mut names = vec![]; let mut depth = 0i32; let mut cur = String::new();
            for ch in inner.chars() { match ch { '<' | '(' | '[' => { depth += 1; cur.push(ch); } '>' | ')' | ']' => { depth -= 1; cur.push(ch); } ',' if depth == 0 => { names.push(cur.clone()); cur.clear(); } _ => cur.push(ch) } }
            if !cur.trim().is_empty() { names.push(cur); }
            names.iter().map(|n| n.split(':').next().unwrap_or("").trim().trim_start_matches("mut ").to_string()).filter(|n| !n.is_empty()).collect()
        };
        let mut named: Vec<String> = vec![];
        for k in specs.sections.keys() { if let Some(rest) = k.strip_prefix(&format!("captype {} ", ctor)) { named.push(rest.to_string()); } }
        if let Some(sg) = specs.sections.get(&format!("sig {}", ctor)).cloned() { named.extend(param_names(&positional(sg, lc))); }
        if let Some(sg) = specs.sections.get(&format!("sig {}", lc.name)).cloned() { named.extend(param_names(&positional(sg, lc)).into_iter().filter(|n| !inputs.contains(n) && !n.starts_with('_') && n != "ctx" && n != "actor")); }
        let missing: BTreeSet<String> = named.iter().filter(|n| !capn.contains(*n) && !inputs.contains(*n)).cloned().collect();
        // L1q: exactly one contract name is missing and exactly one capture is not named by the contract, and nothing known about that
        // capture's type contradicts the contract: the capture was renamed; the lifted body uses the contract's name for it
        let extra: Vec<usize> = lc.captures.iter().enumerate().filter(|(_, c)| { let cn = if c.as_str() == "self" { "this".to_string() } else { c.replace("self.", "self_") }; !named.contains(&cn) }).map(|(i, _)| i).collect();
        if missing.len() == 1 && extra.len() == 1 && !missing.iter().next().unwrap().starts_with('$') {
            let want = missing.iter().next().unwrap().clone(); let idx = extra[0]; let have = lc.captures[idx].clone();
            let norm = |t: &str| -> String { let t: String = t.chars().filter(|c| !c.is_whitespace()).collect(); t.trim_start_matches("&mut").trim_start_matches('&').to_string() };
            let declared: Option<String> = specs.sections.get(&format!("captype {} {}", ctor, want)).map(|t| norm(t)).or_else(|| {
                let sg = specs.sections.get(&format!("sig {}", ctor)).or_else(|| specs.sections.get(&format!("sig {}", lc.name)))?;
                let key = format!("{}:", want); let pos = sg.find(&key)?; let rest = &sg[pos + key.len()..];
                let mut depth = 0i32; let mut ty = String::new();
                for ch in rest.chars() { match ch { '<' | '(' | '[' => { depth += 1; ty.push(ch); } '>' | ']' => { depth -= 1; ty.push(ch); } ')' => { if depth == 0 { break; } depth -= 1; ty.push(ch); } ',' if depth == 0 => break, _ => ty.push(ch) } }
                Some(norm(&ty)) });
            let known = lc.cap_types.get(idx).cloned().flatten().map(|t| norm(&t));
            let compatible = match (&declared, &known) { (Some(d), Some(k)) => d == k, _ => true };
            if compatible && !have.contains('.') && have != "self" {
                let mut l2 = lc.clone();
                l2.captures[idx] = want.clone();
                l2.body = syn::parse2(rename_ident(l2.body.to_token_stream(), &have, &want)).expect("closure body");
                cx.fire("L1q");
                // the construction site passes the captures positionally under their real names; nothing to change there
                return emit_lifted(cx, specs, em, gens, &l2, file);
            }
        }
        if !missing.is_empty() {
            cx.soft.push(format!("lost anchor: closure `{}` no longer captures {} which its contract names; its constructor is emitted from what it captures now and its own obligations are undecided", lc.name, missing.iter().map(|m| format!("`{}`", m)).collect::<Vec<_>>().join(", ")));
            let keys: Vec<String> = specs.sections.keys().filter(|k| { let k = k.as_str(); k.ends_with(&format!(" {}", lc.name)) || k.contains(&format!(" {} ", ctor)) || k.ends_with(&format!(" {}", ctor)) || k.contains(&format!(" {} ", lc.name)) }).cloned().collect();
            for k in keys { specs.used.insert(k); }
            let typed_sig = specs.sections.contains_key(&format!("sig {}", ctor));
            let mut own = String::from("own_none()"); let mut ps = vec![]; let mut tps = vec![]; let mut any_typed = false;
            for (i, c) in lc.captures.iter().enumerate() {
                let cn = if c == "self" { "this".to_string() } else { c.replace("self.", "self_") };
                if typed_sig { ps.push(format!("{}: {}", cn, lc.cap_types.get(i).cloned().flatten().filter(|t| !t.starts_with('?')).unwrap_or_else(|| "impl Sized".to_string()))); }
                else { match specs.sections.get(&format!("captype {} {}", ctor, cn)) { Some(t) => { any_typed = true; ps.push(format!("{}: {}", cn, t.trim())); } None => { tps.push(format!("HxT{}", i)); ps.push(format!("{}: HxT{}", cn, i)); } } }
                own = format!("own_join({}, own_of(&{}))", own, cn);
            }
            em.raw(&format!("pub open spec fn {}__code() -> int {{ {} }}", lc.name, fnv(&lc.name)));
            let start = em.line();
            em.raw("#[verifier::external_body] // @closure-constructor: a closure object owns exactly what its literal captures (Rust semantics)");
            let ret_obj = specs.sections.get(&format!("ret {}", ctor)).map(|s| s.trim().to_string()).unwrap_or_else(|| "ClosureObj".to_string());
            if typed_sig { em.raw(&format!("pub fn {}{}({}) -> (r: {}){}", ctor, gtxt_all, ps.join(", "), ret_obj, wtxt_all)); }
            else if any_typed { let g = { let t = gtxt_all.trim(); if t.len() >= 2 { t[1..t.len() - 1].to_string() } else { String::new() } }; let mut all: Vec<String> = if g.is_empty() { vec![] } else { vec![g] }; all.extend(tps.clone()); em.raw(&format!("pub fn {}<{}>({}) -> (r: {}){}", ctor, all.join(", "), ps.join(", "), ret_obj, wtxt_all)); }
            else { em.raw(&format!("pub fn {}{}({}) -> (r: {})", ctor, if tps.is_empty() { String::new() } else { format!("<{}>", tps.join(", ")) }, ps.join(", "), ret_obj)); }
            em.raw(&format!("    ensures r.captured() == {}, r.code() == {},", own, fnv(&lc.name)));
            if let Some(extra) = specs.sections.get(&format!("new {}", lc.name)).cloned() {
                let extra = positional(extra, lc);
                let word = |line: &str, w: &str| -> bool { let b = line.as_bytes(); let mut i = 0; while let Some(p) = line[i..].find(w) { let s0 = i + p; let e0 = s0 + w.len(); let lb = s0 == 0 || !(b[s0 - 1].is_ascii_alphanumeric() || b[s0 - 1] == b'_'); let rb = e0 >= b.len() || !(b[e0].is_ascii_alphanumeric() || b[e0] == b'_'); if lb && rb { return true; } i = e0; } false };
                // a line may hold several comma-separated clauses: keep the clauses that do not mention a missing capture
                for line in extra.lines() {
                    let clauses: Vec<&str> = line.split("), ").collect();
                    let kept: Vec<String> = line.trim().trim_end_matches(',').split(", r.").enumerate().map(|(i, c)| if i == 0 { c.to_string() } else { format!("r.{}", c) }).filter(|c| !missing.iter().any(|m| word(c, m)) && !c.contains('$')).collect();
                    let _ = clauses;
                    if !kept.is_empty() { em.raw(&format!("    {},", kept.join(", "))); }
                }
            }
            em.raw("{ unimplemented!() }");
            em.functions.push(emit::FnInfo { name: ctor.clone(), file: file.to_string(), src_line: lc.line, gen_start: start, gen_end: em.line(), kind: "closure-constructor".into(), path: lc.name.clone(), loops: 0, captured: lc.captures.clone() });
            em.raw("");
            cx.fire("L1r");
            // the closures nested in the body are still lifted (other contracts refer to their code identities)
            let mut block = lc.body.clone();
            rewrite::inline_tail_async(&mut block, cx);
            let mut binders = BTreeSet::new();
            for p in &lc.inputs { rewrite::collect_binders_pat(p, &mut binders); }
            for c in &lc.captures { binders.insert(c.clone()); }
            rewrite::collect_binders_block(&block, &mut binders);
            cx.cur_fn = lc.name.clone(); let fresh = cx.dropbody.insert(lc.name.clone());
            let typed_ctors: BTreeSet<String> = specs.sections.keys().filter_map(|k| k.strip_prefix("sig ").map(|s| s.to_string())).collect();
            let typed_caps: BTreeSet<String> = specs.sections.keys().filter_map(|k| k.strip_prefix("captype ").map(|s| s.to_string())).collect();
            let cpn = ctor_param_names_of(specs);
            let gen_idents: Vec<String> = { let cl = closure_generics(gens, cx); gens.iter().flat_map(|g| g.params.iter().filter_map(|p| if let syn::GenericParam::Type(t) = p { Some(t.ident.to_string()) } else { None }).collect::<Vec<_>>()).filter(|n| !cl.contains_key(n)).collect() };
            let mut rw = Rw::new(cx, false, binders, lc.name.clone());
            rw.lift_prefix = lc.name.clone(); rw.typed_ctors = typed_ctors; rw.typed_caps = typed_caps; rw.gen_idents = gen_idents; rw.ctor_param_names = cpn;
            rw.visit_block_mut(&mut block);
            let more = std::mem::take(&mut rw.lifted_closures);
            drop(rw);
            if fresh { cx.dropbody.remove(&lc.name); }
            cx.cur_fn = String::new();
            return more;
        }
    }
    let mut own = String::from("own_none()");
    let mut tps = vec![]; let mut ps = vec![]; let mut any_typed = false;
    for (i, c) in lc.captures.iter().enumerate() {
        let c = if c == "self" { "this".to_string() } else { c.replace("self.", "self_") };
        match specs.get(&format!("captype {} {}", ctor, c)) {
            Some(t) => { any_typed = true; ps.push(format!("{}: {}", c, t.trim())); }
            None => { tps.push(format!("HxT{}", i)); ps.push(format!("{}: HxT{}", c, i)); }
        }
        own = format!("own_join({}, own_of(&{}))", own, c);
    }
    // a closure literal the contracts do not know, which captures nothing, takes nothing and whose body is empty once the log lines are
    // dropped, does nothing when called: its code id is 0 (`hx_noop_code`), which the models of "call this boxed closure" know about
    let noop = lc.captures.is_empty() && lc.inputs.is_empty() && !lc.is_async_block && specs.sections.get(&format!("sig {}", lc.name)).is_none() && specs.sections.get(&format!("sig {}", ctor)).is_none()
        && lc.body.stmts.iter().all(|st| match st { syn::Stmt::Macro(m) => rewrite::is_dropped_macro(&m.mac), syn::Stmt::Expr(syn::Expr::Macro(m), _) => rewrite::is_dropped_macro(&m.mac), _ => false });
    let code_id = if noop { cx.fire("L1z"); 0 } else { fnv(&lc.name) };
    em.raw(&format!("pub open spec fn {}__code() -> int {{ {} }}", lc.name, code_id));
    let start = em.line();
    em.raw("#[verifier::external_body] // @closure-constructor: a closure object owns exactly what its literal captures (Rust semantics)");
    let ret_obj = specs.get(&format!("ret {}", ctor)).map(|s| s.trim().to_string()).unwrap_or_else(|| "ClosureObj".to_string());
    match specs.get(&format!("sig {}", ctor)) {
        Some(sig) => {
            // captures the given signature does not name are appended, typed from the enclosing scope
            let mut sg = positional(sig, lc).trim().to_string();
            let inner = sg.trim_start_matches('(').trim_end_matches(')').to_string();
            let names: Vec<String> = inner.split(',').map(|p| p.split(':').next().unwrap_or("").trim().to_string()).collect();
            let mut extra = vec![];
            for (i, c) in lc.captures.iter().enumerate() { let cn = if c == "self" { "this".to_string() } else { c.replace("self.", "self_") }; if !names.contains(&cn) { match lc.cap_types.get(i).cloned().flatten().filter(|t| !t.starts_with('?')) { Some(t) => extra.push(format!("{}: {}", cn, t)), None => extra.push(format!("{}: impl Sized", cn)) } } }
            if !extra.is_empty() {
                // parameters in capture order (the order the construction site passes them in)
                let mut parts: Vec<String> = vec![]; let mut depth = 0i32; let mut cur = String::new();
                for ch in inner.chars() { match ch { '<' | '(' | '[' => { depth += 1; cur.push(ch); } '>' | ')' | ']' => { depth -= 1; cur.push(ch); } ',' if depth == 0 => { parts.push(cur.trim().to_string()); cur.clear(); } _ => cur.push(ch) } }
                if !cur.trim().is_empty() { parts.push(cur.trim().to_string()); }
                let mut ordered: Vec<String> = vec![];
                for c in lc.captures.iter() {
                    let cn = if c == "self" { "this".to_string() } else { c.replace("self.", "self_") };
                    if let Some(p) = parts.iter().find(|p| p.split(':').next().unwrap_or("").trim() == cn) { ordered.push(p.clone()); }
                    else if let Some(p) = extra.iter().find(|p| p.split(':').next().unwrap_or("").trim() == cn) { ordered.push(p.clone()); }
                }
                for p in &parts { if !ordered.contains(p) { ordered.push(p.clone()); } }
                sg = format!("({})", ordered.join(", ")); cx.fire("L1x");
            }
            em.raw(&format!("pub fn {}{}{} -> (r: {}){}", ctor, gtxt_all, sg, ret_obj, wtxt_all))
        }
        None if any_typed => {
            // enclosing generics first (they appear in the capture types the spec gives), then one parameter per generic capture
            let g = { let t = gtxt_all.trim(); if t.len() >= 2 { t[1..t.len() - 1].to_string() } else { String::new() } };
            let mut all: Vec<String> = if g.is_empty() { vec![] } else { vec![g] }; all.extend(tps.clone());
            // the construction sites printed before guessed the number of `_` holes: now it is known
            em.fix_ctor_holes(&ctor, tps.len());
            em.raw(&format!("pub fn {}<{}>({}) -> (r: {}){}", ctor, all.join(", "), ps.join(", "), ret_obj, wtxt_all));
        }
        None => em.raw(&format!("pub fn {}{}({}) -> (r: {})", ctor, if tps.is_empty() { String::new() } else { format!("<{}>", tps.join(", ")) }, ps.join(", "), ret_obj)),
    }
    em.raw(&format!("    ensures r.captured() == {}, r.code() == {},", own, code_id));
    if let Some(extra) = specs.get(&format!("new {}", lc.name)) { em.raw_block(&positional(extra, lc), ""); }
    em.raw("{ unimplemented!() }");
    em.functions.push(emit::FnInfo { name: ctor.clone(), file: file.to_string(), src_line: lc.line, gen_start: start, gen_end: em.line(), kind: "closure-constructor".into(), path: lc.name.clone(), loops: 0, captured: lc.captures.clone() });
    em.raw("");
    // ---- lifted body, only when the spec gives its signature
    // a closure literal the contracts know nothing about (an edit added it) is code of unknown behaviour inside its function: like a loop
    // without a loop contract, a clause that fails in that function is not a verdict (the driver reports it as undecided); if everything
    // there is proved all the same, it is proved whatever the closure does
    if specs.sections.get(&format!("sig {}", lc.name)).is_none() && specs.sections.get(&format!("new {}", lc.name)).is_none() && specs.sections.get(&format!("sig {}", ctor)).is_none() && !noop && !cx.cur_encl.is_empty() {
        let e = cx.cur_encl.clone(); if !cx.uncontracted.contains(&e) { cx.uncontracted.push(e); }
    }
    let Some(sig) = specs.get(&format!("sig {}", lc.name)).map(|t| positional(t, lc)) else { return vec![]; };
    // A5p: a closure `move || { <prefix>; Box::pin(async move { .. }) }` does <prefix> when it is CALLED and the rest when the future it
    // returns is run. If the spec has `@sig F__prefix` / `@fn F__prefix`, the prefix is verified as a function of its own (what creating
    // the future may do); the whole closure is still verified as the eager run of both parts
    if let Some(psig) = specs.get(&format!("sig {}__prefix", lc.name)).map(|t| positional(t, lc)) {
        fn strip(e: &syn::Expr) -> &syn::Expr { match e { syn::Expr::Call(c) if c.args.len() == 1 && nospace(&c.func.to_token_stream().to_string()) == "Box::pin" => strip(&c.args[0]), syn::Expr::Paren(p) => strip(&p.expr), other => other } }
        let is_split = matches!(lc.body.stmts.last(), Some(syn::Stmt::Expr(e, None)) if matches!(strip(e), syn::Expr::Async(_)));
        if is_split {
            let mut l2 = lc.clone();
            l2.name = format!("{}__prefix", lc.name);
            l2.body.stmts.pop();
            cx.cur_fn = l2.name.clone();
            let _ = emit_lifted_body(cx, specs, em, gens, &l2, file, psig, gtxt_all.clone(), wtxt_all.clone());
            cx.cur_fn = String::new();
            cx.fire("A5p");
        } else { cx.soft.push(format!("lost anchor: closure `{}` no longer has the shape `<prefix>; Box::pin(async move {{..}})` its prefix contract is for", lc.name)); }
    }
    cx.cur_fn = lc.name.clone();
    let r = emit_lifted_body(cx, specs, em, gens, lc, file, sig, gtxt_all, wtxt_all);
    cx.cur_fn = String::new();
    r
}
fn ctor_param_names_of(specs: &Specs) -> BTreeMap<String, Vec<String>> {
    let mut out: BTreeMap<String, Vec<String>> = BTreeMap::new();
    for (k, v) in specs.sections.iter() { if let Some(n) = k.strip_prefix("sig ") { if n.ends_with("__new") && !v.contains('$') {
        let inner = v.trim().trim_start_matches('(').trim_end_matches(')');
        let mut names = vec![]; let mut depth = 0i32; let mut cur = String::new();
        for ch in inner.chars() { match ch { '<' | '(' | '[' => { depth += 1; cur.push(ch); } '>' | ')' | ']' => { depth -= 1; cur.push(ch); } ',' if depth == 0 => { names.push(cur.clone()); cur.clear(); } _ => cur.push(ch) } }
        if !cur.trim().is_empty() { names.push(cur); }
        out.insert(n.to_string(), names.iter().map(|p| p.split(':').next().unwrap_or("").trim().trim_start_matches("mut ").to_string()).collect());
    } } }
    out
}
/// a method is called on the bare identifier `n` somewhere in the block (it may need `&mut n`); cheap and conservative
fn uses_mutably(b: &syn::Block, n: &str) -> bool {
    struct V<'a>(&'a str, bool);
    impl<'a, 'b> syn::visit::Visit<'b> for V<'a> {
        fn visit_expr_method_call(&mut self, m: &'b syn::ExprMethodCall) {
            if let syn::Expr::Path(p) = &*m.receiver { if p.path.is_ident(self.0) { let mn = m.method.to_string(); if matches!(mn.as_str(), "cancellation" | "close" | "poll_canceled" | "start_send" | "try_send" | "poll_ready" | "try_next" | "poll_next" | "poll_unpin" | "as_mut") { self.1 = true; } } }
            syn::visit::visit_expr_method_call(self, m);
        }
    }
    let mut v = V(n, false); syn::visit::Visit::visit_block(&mut v, b); v.1
}
fn emit_lifted_body(cx: &mut Ctx, specs: &mut Specs, em: &mut Emitter, gens: &[&syn::Generics], lc: &rewrite::LiftedClosure, file: &str, sig: String, gtxt_all: String, wtxt_all: String) -> Vec<rewrite::LiftedClosure> {
    let drop_this = cx.dropbody.contains(&lc.name);
    let mut block = lc.body.clone();
    rewrite::inline_tail_async(&mut block, cx);
    let fnmut;
    // L1m: a capture the closure mutates in place (FnMut) is a `&mut` parameter of the lifted function; `&mut cap` in the body is
    // then a reborrow `&mut *cap`
    {
        let by_mut: Vec<String> = lc.captures.iter().filter(|c| { let c = c.as_str(); sig.contains(&format!("{}: &mut ", c)) }).cloned().collect();
        fnmut = !by_mut.is_empty();
        if fnmut {
            let named: Vec<String> = lc.captures.iter().filter(|c| sig.contains(&format!("{}: ", c))).cloned().collect();
            let all: Vec<String> = lc.captures.iter().filter(|c| by_mut.contains(c) || !named.contains(c)).cloned().collect();
            rewrite::reborrow_mut_captures(&mut block, &all); cx.fire("L1m");
        }
    }
    let mut binders = BTreeSet::new();
    for p in &lc.inputs { rewrite::collect_binders_pat(p, &mut binders); }
    for c in &lc.captures { binders.insert(c.clone()); }
    rewrite::collect_binders_block(&block, &mut binders);
    let mut rw = Rw::new(cx, false, binders, lc.name.clone());
    rw.lift_prefix = lc.name.clone();
    rw.typed_ctors = specs.sections.keys().filter_map(|k| k.strip_prefix("sig ").map(|s| s.to_string())).collect();
    rw.ctor_param_names = ctor_param_names_of(specs);
    rw.typed_caps = specs.sections.keys().filter_map(|k| k.strip_prefix("captype ").map(|s| s.to_string())).collect();
    rw.gen_idents = { let cl = closure_generics(gens, rw.cx); gens.iter().flat_map(|g| g.params.iter().filter_map(|p| if let syn::GenericParam::Type(t) = p { Some(t.ident.to_string()) } else { None }).collect::<Vec<_>>()).filter(|n| !cl.contains_key(n)).collect() };
    rw.visit_block_mut(&mut block);
    let nloops = rw.loops;
    let g6_sites = rw.g6_sites;
    let more = std::mem::take(&mut rw.lifted_closures);
    drop(rw);
    for k in 0..g6_sites {
        let mname = format!("{}__guard_across_await_site{}", lc.name, k);
        let st = em.line();
        em.raw(&format!("pub fn {}() {{ hx_guard_shape_marker(); }}   // the lock guard of `{}` that stays alive across an await", mname, lc.name));
        em.functions.push(emit::FnInfo { name: mname, file: file.to_string(), src_line: lc.line, gen_start: st, gen_end: em.line(), kind: "fn".into(), path: lc.name.clone(), loops: 0, captured: vec![] });
        em.raw("");
    }
    let mut probes: Vec<(usize, String)> = vec![];
    if cx.probe { rewrite::insert_probes(&mut block, &lc.name, em, &mut probes); }
    if nloops > 0 { em.raw("#[verifier::exec_allows_no_decreases_clause]");
        if (0..nloops).all(|k| !specs.get(&format!("loop {} {}", lc.name, k)).unwrap_or_default().lines().any(|l| { let t = l.trim(); t == "invariant_except_break" || t == "ensures" })) { em.raw("#[verifier::loop_isolation(false)]"); } }
    if drop_this { em.raw("#[verifier::external_body] // @dropped: this body is outside the dialect on this tree; its contract is assumed for the rest of the unit and its own obligations are undecided"); cx.dropped.push(lc.name.clone()); }
    let fn_start = em.line();
    let sig = sig.trim();
    // `(params) -> ret`  ;  the ghost world parameter is appended unless the signature says `nowrld`
    let (params, ret) = match sig.rsplit_once("->") { Some((a, b)) if a.trim_end().ends_with(')') => (a.trim().to_string(), Some(b.trim().to_string())), _ => (sig.to_string(), None) };
    let mut params = params.trim().trim_start_matches('(').trim_end_matches(')').to_string();
    // captures the spec's signature does not name (the code captures more than when the contract was written) become extra
    // generic parameters, so that the body still type-checks and the ownership obligations on the constructor decide
    let mut extra_gen: Vec<String> = vec![];
    {
        let mut names: Vec<String> = vec![]; let mut depth = 0i32; let mut cur = String::new();
        for ch in params.chars() { match ch { '<' | '(' | '[' => { depth += 1; cur.push(ch); } '>' | ')' | ']' => { depth -= 1; cur.push(ch); } ',' if depth == 0 => { names.push(cur.clone()); cur.clear(); } _ => cur.push(ch) } }
        if !cur.trim().is_empty() { names.push(cur); }
        let names: Vec<String> = names.iter().map(|n| n.split(':').next().unwrap_or("").trim().trim_start_matches("mut ").to_string()).collect();
        for (i, c) in lc.captures.iter().enumerate() { if c != "self" && !names.contains(c) {
            let ty = match lc.cap_types.get(i).cloned().flatten().filter(|t| !t.starts_with('?')) { Some(t) => t, None => { extra_gen.push(format!("HxCap{}", i)); format!("HxCap{}", i) } };
            // a closure whose contracted captures are `&mut` is an FnMut: what else it captures is its own mutable state too
            let ty = if fnmut { format!("&mut {}", ty) } else { ty };
            params = format!("{}: {}{}{}", c, ty, if params.trim().is_empty() { "" } else { ", " }, params); cx.fire("L1x");
        } }
    }
    let gtxt_all = if extra_gen.is_empty() { gtxt_all.clone() } else { let g = { let t = gtxt_all.trim(); if t.len() >= 2 { t[1..t.len() - 1].to_string() } else { String::new() } }; let mut all: Vec<String> = if g.is_empty() { vec![] } else { vec![g] }; all.extend(extra_gen); format!("<{}>", all.join(", ")) };
    // L1v: a capture the closure owns (taken by value) may be used mutably by its body (`tx.cancellation()`, `rx.close()`): it is re-bound
    // as `let mut c = c;` at the top of the lifted body; the contract keeps talking about the parameter
    {
        let mut pieces: Vec<String> = vec![]; let mut depth = 0i32; let mut cur = String::new();
        for ch in params.chars() { match ch { '<' | '(' | '[' => { depth += 1; cur.push(ch); } '>' | ')' | ']' => { depth -= 1; cur.push(ch); } ',' if depth == 0 => { pieces.push(cur.clone()); cur.clear(); } _ => cur.push(ch) } }
        if !cur.trim().is_empty() { pieces.push(cur); }
        let mut rebinds: Vec<syn::Stmt> = vec![];
        for pc in &pieces { if let Some((n, t)) = pc.split_once(':') { let n = n.trim(); let t = t.trim(); if !n.starts_with("mut ") && !t.starts_with('&') && !t.starts_with("impl") && lc.captures.iter().any(|c| c == n) && uses_mutably(&block, n) { let id = syn::Ident::new(n, proc_macro2::Span::call_site()); rebinds.push(syn::parse_quote!(let mut #id = #id;)); } } }
        if !rebinds.is_empty() { cx.fire("L1v"); for (i, st) in rebinds.into_iter().enumerate() { block.stmts.insert(i, st); } }
    }
    let ghost = if specs.get(&format!("pure {}", lc.name)).is_some() { String::new() } else { format!("{}Tracked(w): Tracked<&mut World>", if params.trim().is_empty() { "" } else { ", " }) };
    em.raw(&format!("pub fn {}{}({}{}){}{}", lc.name, gtxt_all, params, ghost, match &ret { Some(r) => format!(" -> (r: {})", r), None => String::new() }, wtxt_all));
    if let Some(sp) = specs.get(&format!("fn {}", lc.name)) { em.raw_block(&positional(sp, lc), ""); }
    let proof_entry = entry_text(cx, specs.get(&format!("proof {} entry", lc.name)));
    let mut loopspecs: BTreeMap<usize, (String, Option<String>, Option<String>)> = BTreeMap::new();
    for k in 0..nloops { if !drop_this && specs.sections.get(&format!("loop {} {}", lc.name, k)).map(|t| t.trim().is_empty()).unwrap_or(true) { cx.soft.push(format!("lost anchor: loop {} of `{}` has no loop contract (a loop was added to the code); what the verifier says about this function is not a verdict", k, lc.name)); cx.uncontracted.push(lc.name.clone()); } }
    for k in 0..nloops { loopspecs.insert(k, (specs.get(&format!("loop {} {}", lc.name, k)).unwrap_or_default(), entry_text(cx, specs.get(&format!("proof {} loop {} start", lc.name, k))), specs.get(&format!("proof {} loop {} end", lc.name, k)))); }
    if drop_this { em.raw("{ unimplemented!() }"); } else { em.body(&block, 0, file, proof_entry.as_deref(), &loopspecs); }
    em.functions.push(emit::FnInfo { name: lc.name.clone(), file: file.to_string(), src_line: lc.line, gen_start: fn_start, gen_end: em.line(), kind: "fn".into(), path: lc.name.clone(), loops: nloops, captured: lc.captures.clone() });
    for (id, wh) in probes { em.probes.push((id, lc.name.clone(), wh)); }
    em.raw("");
    more
}

fn extract_struct(cx: &mut Ctx, specs: &mut Specs, em: &mut Emitter, ex: &Extract) {
    let Some(file) = cx.file(&ex.file) else { return; };
    let mut items = vec![]; all_items(&file.items, &mut items);
    for it in items {
        match it {
            syn::Item::Struct(st) if st.ident == ex.path.as_str() && ex.kind == "struct" => {
                let src_line = st.ident.span().start().line;
                let (g, w) = generics_text(&[&st.generics], &[], cx);
                em.comment(&format!("// @extracted struct `{}` from {}:{}", ex.path, ex.file, src_line));
                if let Some(attrs) = specs.get(&format!("attrs {}", ex.path)) { em.raw_block(&attrs, ""); }
                // `derives=Default`: a prelude models this struct's derived Default field by field; the derive must still be there
                if let Some(want) = ex.opt("derives") { for w in want.split('+') { let has = st.attrs.iter().any(|a| a.path().is_ident("derive") && a.meta.to_token_stream().to_string().split(|c: char| !c.is_alphanumeric()).any(|t| t == w)); if !has { cx.err(format!("lost anchor: struct `{}` in {} no longer derives {} (its derived implementation is modelled in a prelude)", ex.path, ex.file, w)); } } }
                let kept = kept_derives(&st.attrs); if !kept.is_empty() { em.raw(&format!("#[derive({})]", kept.join(", "))); }
                let mut fl = vec![]; let mut own = String::from("own_none()");
                let mut tuple = false;
                for (i, f) in st.fields.iter().enumerate() {
                    let mut t = f.ty.clone(); rewrite::map_type(&mut t, cx);
                    let tt = tidy(&t.to_token_stream().to_string());
                    match &f.ident { Some(n) => { fl.push(format!("    pub {}: {},", n, tt)); own = format!("own_join({}, self.{}.own())", own, n); } None => { tuple = true; fl.push(format!("pub {}", tt)); own = format!("own_join({}, self.{}.own())", own, i); } }
                }
                if tuple { em.raw(&format!("pub struct {}{}({}){};", st.ident, g, fl.join(", "), w)); }
                else if fl.is_empty() { em.raw(&format!("pub struct {}{}{};", st.ident, g, w)); }
                else { em.raw(&format!("pub struct {}{}{} {{", st.ident, g, w)); for l in &fl { em.raw(l); } em.raw("}"); }
                let g = { let mut g2 = st.generics.clone(); for p in g2.params.iter_mut() { if let syn::GenericParam::Type(t) = p { t.default = None; t.eq_token = None; } } generics_text(&[&g2], &[], cx).0 };
                if ex.opt("own").as_deref() == Some("none") {
                    let targs: Vec<String> = st.generics.params.iter().filter_map(|p| match p { syn::GenericParam::Type(t) => Some(t.ident.to_string()), syn::GenericParam::Lifetime(l) => Some(l.lifetime.to_string()), _ => None }).collect();
                    let ta = if targs.is_empty() { String::new() } else { format!("<{}>", targs.join(", ")) };
                    em.raw(&format!("impl{} OwnView for {}{}{} {{ open spec fn own(&self) -> Own {{ own_none() }} }}", g, st.ident, ta, w));
                }
                if ex.opt("own").as_deref() == Some("derive") {
                    cx.fire("G3");
                    let targs: Vec<String> = st.generics.params.iter().filter_map(|p| match p { syn::GenericParam::Type(t) => Some(t.ident.to_string()), syn::GenericParam::Lifetime(l) => Some(l.lifetime.to_string()), _ => None }).collect();
                    let ta = if targs.is_empty() { String::new() } else { format!("<{}>", targs.join(", ")) };
                    em.raw(&format!("impl{} OwnView for {}{}{} {{ open spec fn own(&self) -> Own {{ {} }} }}", g, st.ident, ta, w, own));
                }
                em.functions.push(emit::FnInfo { name: format!("struct {}", ex.path), file: ex.file.clone(), src_line, gen_start: em.line(), gen_end: em.line(), kind: "struct".into(), path: ex.path.clone(), loops: 0, captured: vec![] });
                em.raw("");
                return;
            }
            syn::Item::Type(ta) if ta.ident == ex.path.as_str() && ex.kind == "alias" => {
                let src_line = ta.ident.span().start().line;
                let (g, _) = generics_text(&[&ta.generics], &[], cx);
                let mut t = (*ta.ty).clone(); rewrite::map_type(&mut t, cx);
                em.comment(&format!("// @extracted alias `{}` from {}:{}", ex.path, ex.file, src_line));
                em.raw(&format!("pub type {}{} = {};", ta.ident, g, tidy(&t.to_token_stream().to_string())));
                em.functions.push(emit::FnInfo { name: format!("alias {}", ex.path), file: ex.file.clone(), src_line, gen_start: em.line(), gen_end: em.line(), kind: "alias".into(), path: ex.path.clone(), loops: 0, captured: vec![] });
                em.raw("");
                return;
            }
            syn::Item::Enum(en) if en.ident == ex.path.as_str() && ex.kind == "enum" => {
                let src_line = en.ident.span().start().line;
                let (g, w) = generics_text(&[&en.generics], &[], cx);
                em.comment(&format!("// @extracted enum `{}` from {}:{}", ex.path, ex.file, src_line));
                if let Some(attrs) = specs.get(&format!("attrs {}", ex.path)) { em.raw_block(&attrs, ""); }
                em.raw(&format!("pub enum {}{}{} {{", en.ident, g, w));
                for v in &en.variants {
                    let mut fs = vec![];
                    for f in &v.fields { let mut t = f.ty.clone(); rewrite::map_type(&mut t, cx); let tt = tidy(&t.to_token_stream().to_string()); match &f.ident { Some(n) => fs.push(format!("{}: {}", n, tt)), None => fs.push(tt) } }
                    match &v.fields { syn::Fields::Unit => em.raw(&format!("    {},", v.ident)), syn::Fields::Unnamed(_) => em.raw(&format!("    {}({}),", v.ident, fs.join(", "))), syn::Fields::Named(_) => em.raw(&format!("    {} {{ {} }},", v.ident, fs.join(", "))) }
                }
                em.raw("}");
                // E1: thiserror #[from] fields -> From impls
                for v in &en.variants { for f in &v.fields { if f.attrs.iter().any(|a| a.path().is_ident("from")) {
                    cx.fire("E1");
                    let mut t = f.ty.clone(); rewrite::map_type(&mut t, cx); let tt = tidy(&t.to_token_stream().to_string());
                    em.raw(&format!("impl vstd::std_specs::convert::FromSpecImpl<{tt}> for {e} {{ open spec fn obeys_from_spec() -> bool {{ true }} open spec fn from_spec(e: {tt}) -> Self {{ {e}::{v}(e) }} }}", tt = tt, e = en.ident, v = v.ident));
                    em.raw(&format!("impl From<{tt}> for {e} {{ fn from(e: {tt}) -> (r: Self) {{ {e}::{v}(e) }} }}", tt = tt, e = en.ident, v = v.ident));
                } } }
                em.functions.push(emit::FnInfo { name: format!("enum {}", ex.path), file: ex.file.clone(), src_line, gen_start: em.line(), gen_end: em.line(), kind: "enum".into(), path: ex.path.clone(), loops: 0, captured: vec![] });
                em.raw("");
                return;
            }
            _ => {}
        }
    }
    cx.err(format!("lost anchor: {} `{}` in {}", ex.kind, ex.path, ex.file));
}

fn kept_derives(attrs: &[syn::Attribute]) -> Vec<String> {
    let mut out = vec![];
    for a in attrs { if a.path().is_ident("derive") { if let syn::Meta::List(ml) = &a.meta { for t in ml.tokens.clone() { if let proc_macro2::TokenTree::Ident(i) = t { let s = i.to_string(); if s == "Clone" || s == "Copy" { out.push(s); } } } } } }
    out
}
fn rename_self(ts: TokenStream) -> TokenStream {
    ts.into_iter().map(|t| match t {
        proc_macro2::TokenTree::Ident(i) if i == "Self" => proc_macro2::TokenTree::Ident(proc_macro2::Ident::new("SelfT", i.span())),
        proc_macro2::TokenTree::Group(g) => { let mut ng = proc_macro2::Group::new(g.delimiter(), rename_self(g.stream())); ng.set_span(g.span()); proc_macro2::TokenTree::Group(ng) }
        other => other,
    }).collect()
}

/// shape check of client traits (DESIGN §5.2): method names, receiver kind and parameter count must match the prelude's model
fn check_trait_shape(cx: &mut Ctx, ex: &Extract) {
    let Some(file) = cx.file(&ex.file) else { return; };
    let mut items = vec![]; all_items(&file.items, &mut items);
    for it in items {
        if let syn::Item::Trait(t) = it { if t.ident == ex.path.as_str() {
            let mut sigs = vec![];
            for ti in &t.items { if let syn::TraitItem::Fn(f) = ti {
                let recv = f.sig.receiver().map(|r| if r.reference.is_some() { if r.mutability.is_some() { "&mut self" } else { "&self" } } else { "self" }).unwrap_or("-");
                sigs.push(format!("{}({};{})", f.sig.ident, recv, f.sig.inputs.len()));
            } }
            let got = sigs.join(" ");
            let want = ex.opt("shape").unwrap_or_default().replace('+', " ");
            if got != want { cx.err(format!("client trait drift: trait {} in {} has shape `{}`, the prelude models `{}`", ex.path, ex.file, got, want)); }
            return;
        } }
    }
    cx.err(format!("lost anchor: trait `{}` in {}", ex.path, ex.file));
}

/// `extract forwarder <file> <Trait>`: the blanket impl `impl<F: Fn(..) -> R, ..> Trait<..> for F` that lets a closure be used as
/// `dyn Trait` must be a pure forwarder, every method `fn m(&self, a, b) -> R { self(a, b) }`: the preludes model a call through the
/// trait object as one run of the closure literal's body with exactly these arguments
fn check_forwarder(cx: &mut Ctx, ex: &Extract) {
    let Some(file) = cx.file(&ex.file) else { return; };
    let mut items = vec![]; all_items(&file.items, &mut items);
    let mut seen = false;
    for it in items {
        if let syn::Item::Impl(im) = it {
            if trait_head(im).as_deref() != Some(ex.path.as_str()) { continue; }
            // the self type is one of the impl's own type parameters
            let st = nospace(&im.self_ty.to_token_stream().to_string());
            if !im.generics.params.iter().any(|p| matches!(p, syn::GenericParam::Type(t) if t.ident == st.as_str())) { continue; }
            seen = true;
            for ii in &im.items { if let syn::ImplItem::Fn(f) = ii {
                let params: Vec<String> = f.sig.inputs.iter().filter_map(|a| if let syn::FnArg::Typed(pt) = a { Some(nospace(&pt.pat.to_token_stream().to_string())) } else { None }).collect();
                let want = format!("{{self({})}}", params.join(","));
                let got = nospace(&f.block.to_token_stream().to_string());
                if got != want { cx.err(format!("adapter drift: `{}::{}` of the closure adapter in {} is `{}`, the preludes model the plain forwarder `{}`", ex.path, f.sig.ident, ex.file, got, want)); }
            } }
        }
    }
    if !seen { cx.err(format!("lost anchor: closure adapter `impl<F> {} for F` in {}", ex.path, ex.file)); }
    else { cx.fire("FW"); }
}

/// `extract adapter <file> <Trait> props=..`: each method of the blanket closure adapter `impl<F: Fn(..) -> R> Trait for F` is emitted
/// as a function over the closure `this: &F` and proved against the generated contract "returns what the closure returns for exactly
/// these arguments" (vstd closure specs `requires` / `ensures`)
fn extract_adapter(cx: &mut Ctx, em: &mut Emitter, ex: &Extract) {
    let Some(file) = cx.file(&ex.file) else { return; };
    em.file_ranges = cx.file_ranges.clone();
    let mut items = vec![]; all_items(&file.items, &mut items);
    let props = ex.opt("props").unwrap_or_else(|| "-".to_string());
    let mut seen = false;
    for it in items {
        let syn::Item::Impl(im) = it else { continue; };
        if trait_head(im).as_deref() != Some(ex.path.as_str()) { continue; }
        let st = nospace(&im.self_ty.to_token_stream().to_string());
        if !im.generics.params.iter().any(|p| matches!(p, syn::GenericParam::Type(t) if t.ident == st.as_str())) { continue; }
        seen = true;
        for ii in &im.items { let syn::ImplItem::Fn(f) = ii else { continue; };
            let fname = format!("{}__{}", ex.path, f.sig.ident);
            cx.cur_fn = fname.clone();
            let mut ps: Vec<String> = vec![]; let mut tys: Vec<String> = vec![]; let mut names: Vec<String> = vec![];
            for a in f.sig.inputs.iter() { if let syn::FnArg::Typed(pt) = a { let mut t = (*pt.ty).clone(); rewrite::map_type(&mut t, cx); let tt = tidy(&t.to_token_stream().to_string()); let n = nospace(&pt.pat.to_token_stream().to_string()); ps.push(format!("{}: {}", n, tt)); tys.push(tt); names.push(n); } }
            let ret = match &f.sig.output { syn::ReturnType::Type(_, t) => { let mut t = (**t).clone(); rewrite::map_type(&mut t, cx); tidy(&t.to_token_stream().to_string()) } syn::ReturnType::Default => "()".to_string() };
            // the other type parameters of the impl keep their bounds (mapped by the unit's bound rules)
            let mut gs: Vec<String> = vec![format!("{}: Fn({}) -> {}", st, tys.join(", "), ret)];
            let mut g2 = im.generics.clone();
            g2.params = g2.params.into_iter().filter(|gp| !matches!(gp, syn::GenericParam::Type(t) if t.ident == st.as_str())).collect();
            if let Some(wc) = &mut g2.where_clause { wc.predicates = wc.predicates.clone().into_iter().filter(|pr| match pr { syn::WherePredicate::Type(pt) => nospace(&pt.bounded_ty.to_token_stream().to_string()) != st, _ => true }).collect(); if wc.predicates.is_empty() { g2.where_clause = None; } }
            let (gt, wtxt) = generics_text(&[&g2], &[], cx);
            { let gt = gt.trim(); if gt.len() > 2 { gs.push(gt[1..gt.len() - 1].to_string()); } }
            let mut block = f.block.clone();
            block = syn::parse2(rename_ident(block.to_token_stream(), "self", "this")).expect("adapter block");
            let mut binders = BTreeSet::new(); for n in &names { binders.insert(n.clone()); } binders.insert("this".into());
            // only rule D1 / D1x applies here (log statements); the call `this(args)` stays a plain closure call
            let _ = binders;
            let mut kept: Vec<syn::Stmt> = vec![];
            for st in std::mem::take(&mut block.stmts) {
                let mac = match &st { syn::Stmt::Macro(m) if rewrite::is_dropped_macro(&m.mac) => Some(m.mac.clone()), syn::Stmt::Expr(syn::Expr::Macro(m), _) if rewrite::is_dropped_macro(&m.mac) => Some(m.mac.clone()), _ => None };
                match mac { None => kept.push(st), Some(m) => { cx.fire("D1"); match rewrite::impure_log_args(&m) { Ok(args) => for a in args { kept.push(syn::parse_quote!(let _ = #a;)); }, Err(what) => cx.err(format!("outside dialect: {} of a dropped log statement in {} may have an effect", what, fname)) } } }
            }
            block.stmts = kept;
            let drop_this = cx.dropbody.contains(&fname);
            em.comment(&format!("// @extracted adapter `{}::{}` from {}:{} as `{}`", ex.path, f.sig.ident, ex.file, f.sig.ident.span().start().line, fname));
            if drop_this { em.raw("#[verifier::external_body] // @dropped: this body is outside the dialect on this tree; its contract is assumed for the rest of the unit and its own obligations are undecided"); cx.dropped.push(fname.clone()); }
            let start = em.line();
            em.raw(&format!("pub fn {}<{}>(this: &{}{}{}) -> (r: {}){}", fname, gs.join(", "), st, if ps.is_empty() { "" } else { ", " }, ps.join(", "), ret, wtxt));
            let tup = if names.is_empty() { "()".to_string() } else { format!("({},)", names.join(", ")) };
            em.raw(&format!("    requires this.requires({}),", tup));
            em.raw(&format!("    ensures this.ensures({}, r),   // @ob adapter.{}-{}-returns-what-the-closure-returns-for-exactly-these-arguments {}", tup, ex.path, f.sig.ident, props));
            if drop_this { em.raw("{ unimplemented!() }"); } else { em.body(&block, 0, &ex.file, None, &BTreeMap::new()); }
            em.functions.push(emit::FnInfo { name: fname.clone(), file: ex.file.clone(), src_line: f.sig.ident.span().start().line, gen_start: start, gen_end: em.line(), kind: "fn".into(), path: format!("{}::{}", ex.path, f.sig.ident), loops: 0, captured: vec![] });
            em.raw("");
            cx.cur_fn = String::new();
            cx.fire("FW2");
        }
    }
    if !seen { cx.err(format!("lost anchor: closure adapter `impl<F> {} for F` in {}", ex.path, ex.file)); }
}
fn rename_ident(ts: TokenStream, from: &str, to: &str) -> TokenStream {
    // renames the VARIABLE `from`: a field or method name after `.` is left alone
    let v: Vec<proc_macro2::TokenTree> = ts.into_iter().collect();
    let mut out: Vec<proc_macro2::TokenTree> = Vec::with_capacity(v.len());
    for i in 0..v.len() {
        match &v[i] {
            proc_macro2::TokenTree::Ident(id) if id == from && !(i > 0 && matches!(&v[i - 1], proc_macro2::TokenTree::Punct(p) if p.as_char() == '.')) => out.push(proc_macro2::TokenTree::Ident(proc_macro2::Ident::new(to, id.span()))),
            proc_macro2::TokenTree::Group(g) => { let mut ng = proc_macro2::Group::new(g.delimiter(), rename_ident(g.stream(), from, to)); ng.set_span(g.span()); out.push(proc_macro2::TokenTree::Group(ng)); }
            other => out.push(other.clone()),
        }
    }
    out.into_iter().collect()
}

fn main() {
    let args: Vec<String> = std::env::args().collect();
    let mut unit_path = None; let mut repo = PathBuf::from("/repo"); let mut out = None; let mut map = None; let mut probe = false; let mut root = PathBuf::from("."); let mut dropbody: BTreeSet<String> = BTreeSet::new(); let mut params: BTreeMap<String, Vec<String>> = BTreeMap::new(); let mut dump_params_to: Option<PathBuf> = None; let mut extra_extracts: Vec<String> = vec![]; let mut extra_specs: Vec<String> = vec![]; let mut extra_traced: Vec<String> = vec![]; let mut extra_types: Vec<String> = vec![]; let mut extra_eager: Vec<String> = vec![]; let mut baseline_fns: BTreeSet<String> = BTreeSet::new();
    let mut i = 1;
    while i < args.len() {
        match args[i].as_str() {
            "--repo" => { repo = PathBuf::from(&args[i + 1]); i += 1; }
            "--unit" => { unit_path = Some(PathBuf::from(&args[i + 1])); i += 1; }
            "--out" => { out = Some(PathBuf::from(&args[i + 1])); i += 1; }
            "--map" => { map = Some(PathBuf::from(&args[i + 1])); i += 1; }
            "--root" => { root = PathBuf::from(&args[i + 1]); i += 1; }
            "--probe" => probe = true,
            "--params" => { i += 1; if let Ok(t) = std::fs::read_to_string(&args[i]) { // a flat JSON object {"key": ["a", "b"], ..} written by --dump-params
                    for line in t.lines() { let line = line.trim().trim_end_matches(','); if let Some((k, v)) = line.split_once("\": [") { let k = k.trim().trim_start_matches('"').to_string(); let v: Vec<String> = v.trim_end_matches(']').split(',').map(|x| x.trim().trim_matches('"').to_string()).filter(|x| !x.is_empty()).collect(); params.insert(k, v); } } } }
            "--fns" => { i += 1; if let Ok(t) = std::fs::read_to_string(&args[i]) { for l in t.lines() { let l = l.trim(); if !l.is_empty() && !l.starts_with('#') { baseline_fns.insert(l.to_string()); } } } }
            "--dump-params" => { i += 1; dump_params_to = Some(PathBuf::from(&args[i])); }
            "--extra-extract" => { i += 1; extra_extracts.push(args[i].clone()); }
            "--extra-spec" => { i += 1; extra_specs.push(args[i].clone()); }
            "--extra-type" => { i += 1; extra_types.push(args[i].clone()); }
            "--extra-traced" => { i += 1; extra_traced.push(args[i].clone()); }
            "--extra-eager" => { i += 1; extra_eager.push(args[i].clone()); }
            "--dropbody" => { i += 1; for n in args[i].split(',') { if !n.trim().is_empty() { dropbody.insert(n.trim().to_string()); } } }
            other => { eprintln!("hx: unknown argument {}", other); std::process::exit(2); }
        }
        i += 1;
    }
    let unit_path = unit_path.expect("--unit");
    let mut unit = match Unit::load(&unit_path) { Ok(u) => u, Err(e) => { eprintln!("hx: {}", e); std::process::exit(2); } };
    // automatic cross-unit stubs requested by the driver: a function another unit proves, used here by its contract only
    for x in &extra_extracts {
        let w: Vec<&str> = x.split_whitespace().collect();
        if w.len() >= 3 { let mut opts = BTreeMap::new(); for kv in &w[3..] { if let Some((k, v)) = kv.split_once('=') { opts.insert(k.to_string(), v.to_string()); } }
            if !unit.extracts.iter().any(|e| e.path == w[2] && e.file == w[1]) { unit.extracts.push(unit::Extract { kind: w[0].to_string(), file: w[1].to_string(), path: w[2].to_string(), opts }); } }
    }

    for t in &extra_types { if let Some((a, b)) = t.split_once("=>") { let pair = (a.trim().to_string(), b.trim().to_string()); if !unit.types.iter().any(|(x, _)| x == &pair.0) { unit.types.push(pair); } } }
    for t in &extra_traced { unit.traced.insert(t.clone()); }
    for t in &extra_eager { unit.eager.insert(t.clone()); unit.traced.insert(t.clone()); }
    let mut cx = Ctx { unit, repo, probe, rules: BTreeMap::new(), errors: vec![], soft: vec![], uncontracted: vec![], cur_encl: String::new(), consts_done: BTreeSet::new(), params: params.clone(), baseline_fns: baseline_fns.clone(), dump_params: BTreeMap::new(), cur_fn: String::new(), dropbody: dropbody.clone(), dropped: vec![], dropped_notes: vec![], files: BTreeMap::new(), file_ranges: BTreeMap::new(), local_mods: BTreeSet::new(), pending: vec![] };
    let mut specs = Specs::default();
    specs.defines = cx.unit.defines.clone();
    for s in cx.unit.specs.clone() { if let Err(e) = specs.load(&root.join(&s)) { eprintln!("hx: {}", e); std::process::exit(2); } }
    for s in cx.unit.specrefs.clone() { if let Err(e) = specs.load_ref(&root.join(&s)) { eprintln!("hx: {}", e); std::process::exit(2); } }
    // `--extra-spec file#fn Type::method`
    for x in &extra_specs { if let Some((f, key)) = x.split_once('#') { if let Err(e) = specs.load_one(&root.join(f), key) { eprintln!("hx: {}", e); std::process::exit(2); } } }
    let mut em = Emitter::new();
    em.raw("// GENERATED by /verif/hx from the current working tree of /repo — do not edit.");
    em.raw("#![allow(unused_imports, unused_variables, unused_mut, dead_code, non_snake_case, unused_parens, unused_braces, unreachable_code, unused_assignments, non_camel_case_types, unused_must_use)]");
    em.raw("use vstd::prelude::*;");
    em.raw("use std::marker::PhantomData;");
    em.raw("verus! {");
    if cx.probe { em.raw("pub uninterp spec fn hx_probe(k: int) -> bool;"); }
    for p in cx.unit.preludes.clone() {
        let path = root.join(&p);
        match std::fs::read_to_string(&path) { Ok(s) => { em.comment(&format!("// @prelude {}", p)); em.raw_block(&s, ""); } Err(e) => { eprintln!("hx: cannot read prelude {}: {}", path.display(), e); std::process::exit(2); } }
    }
    em.comment("// @extracted-section");
    for ex in cx.unit.extracts.clone() {
        match ex.kind.as_str() {
            "fn" | "asyncblock" | "stub" => extract_fn(&mut cx, &mut specs, &mut em, &ex),
            "trait" => extract_trait(&mut cx, &mut specs, &mut em, &ex),
            "traitimpl" => extract_traitimpl(&mut cx, &mut specs, &mut em, &ex),
            "struct" | "alias" | "enum" => extract_struct(&mut cx, &mut specs, &mut em, &ex),
            "traitshape" => check_trait_shape(&mut cx, &ex),
            "forwarder" => check_forwarder(&mut cx, &ex),
            "adapter" => extract_adapter(&mut cx, &mut em, &ex),
            other => cx.err(format!("unit file: unknown extract kind {}", other)),
        }
    }
    if let Some(t) = specs.get("tail") { em.comment("// @tail (spec-level lemmas of the unit)"); em.raw_block(&t, ""); }
    em.raw("} // verus!");
    em.raw("fn main() {}");
    // unused spec sections are a lost anchor too: a contract that is attached to nothing proves nothing
    // (soft: the generated file is still written, so that a definite violation elsewhere is not masked by the lost anchor)
    for k in specs.sections.keys() { if !specs.used.contains(k) && !specs.exempt.contains(k) { cx.soft.push(format!("lost anchor: spec section `@{}` matches no extracted item", k)); } }
    if let Some(o) = &out { std::fs::write(o, em.text()).expect("write out"); } else { print!("{}", em.text()); }
    if let Some(m) = &map { std::fs::write(m, em.map_json(&cx)).expect("write map"); }
    if let Some(pth) = &dump_params_to {
        let mut all: BTreeMap<String, Vec<String>> = BTreeMap::new();
        if let Ok(t) = std::fs::read_to_string(pth) { for line in t.lines() { let line = line.trim().trim_end_matches(','); if let Some((k, v)) = line.split_once("\": [") { let k = k.trim().trim_start_matches('"').to_string(); let v: Vec<String> = v.trim_end_matches(']').split(',').map(|x| x.trim().trim_matches('"').to_string()).filter(|x| !x.is_empty()).collect(); all.insert(k, v); } } }
        for (k, v) in &cx.dump_params { all.insert(k.clone(), v.clone()); }
        let body: Vec<String> = all.iter().map(|(k, v)| format!(" \"{}\": [{}]", k, v.iter().map(|x| format!("\"{}\"", x)).collect::<Vec<_>>().join(", "))).collect();
        std::fs::write(pth, format!("{{\n{}\n}}\n", body.join(",\n"))).expect("write params");
    }
    for n in &cx.dropped_notes { eprintln!("hx: note: dropped body: {}", n); }
    if !cx.errors.is_empty() { for e in &cx.errors { eprintln!("hx: {}", e); } std::process::exit(2); }
    if !cx.soft.is_empty() { for e in &cx.soft { eprintln!("hx: {}", e); } std::process::exit(3); }
    let _ = quote!();
}
