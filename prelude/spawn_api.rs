// ===== prelude/spawn_api.rs — what the registry needs from spawning (contracts proved in units env / spawn) =====
#[verifier::external_body] #[verifier::accept_recursive_types(A)]
pub struct LoopFuture<A> { p: core::marker::PhantomData<A> }
impl<A> LoopFuture<A> { pub uninterp spec fn slot(&self) -> int; }
#[verifier::external_body] #[verifier::accept_recursive_types(A)]
pub struct ActorHandle<A> { p: core::marker::PhantomData<A> }
impl<A> ActorHandle<A> {
    pub uninterp spec fn task(&self) -> int;
    pub uninterp spec fn has_detach(&self) -> bool;
    // actor_handle.rs ActorHandle::detach (proved in unit spawn)
    #[verifier::external_body]
    pub fn detach(self, Tracked(w): Tracked<&mut World>)
        requires old(w).tasks.dom().contains(self.task()),
        ensures self.has_detach() ==> *final(w) == (World { tasks: old(w).tasks.insert(self.task(), TaskSt::Detached), ..*old(w) }),
                !self.has_detach() ==> same_world(old(w), final(w))
    { unimplemented!() }
}
pub trait Spawner<A: Actor>: Sized {
    spec fn drop_is_detach() -> bool;
    fn spawn_actor(future: LoopFuture<A>, Tracked(w): Tracked<&mut World>) -> (h: ActorHandle<A>)
        ensures !old(w).tasks.dom().contains(h.task()),
                *final(w) == (World { tasks: old(w).tasks.insert(h.task(), TaskSt::Held), ..*old(w) }),
                h.has_detach() || Self::drop_is_detach();
}
pub open spec fn alive_after<P: Spawner<A>, A: Actor>(w: &World, t: int, retained: bool) -> bool {
    w.tasks.dom().contains(t) && (w.tasks[t] == TaskSt::Detached || (w.tasks[t] == TaskSt::Held && (retained || P::drop_is_detach())))
}
#[verifier::external_body] #[verifier::accept_recursive_types(A)]
pub struct Environment<A> { p: core::marker::PhantomData<A> }
impl<A: Actor> Environment<A> {
    #[verifier::external_body] pub fn unbounded() -> (r: Self) { unimplemented!() }
    // environment.rs create_loop: a fresh running slot, observed by the returned Addr and resolved by the returned future's notifier
    #[verifier::external_body]
    pub fn create_loop(self, actor: A, Tracked(w): Tracked<&mut World>) -> (r: (LoopFuture<A>, Addr<A>))
        ensures !old(w).slots.dom().contains(r.1.running.slot()),
                *final(w) == (World { slots: old(w).slots.insert(r.1.running.slot(), Slot { resolved: false, observed: false }), ..*old(w) }),
                r.0.slot() == r.1.running.slot(), !r.1.running.consumed(),
    { unimplemented!() }
}
#[verifier::external_body]
pub fn fresh_actor<A: Actor + Default>() -> (r: A) { unimplemented!() }
pub trait SpawnableService<S: Spawner<Self>>: Service {}
