#!/usr/bin/env python3
"""bounded scenario stand-in: the demonstration tests of the independently written property-breaking changes (seeded/*/) are concrete
client programs (a few tasks, a few messages, explicit interleavings, wall-clock margins of tens of milliseconds) that pass on the
pinned tree. Run against the real crate of a tree, a scenario that fails is a failing client program for the property it was written
for. This is a BOUNDED check (that finite set of programs, one schedule each per run), never counted as proved.

  tools/scenarios.py run  --repo DIR [--props C01,C02 | --all] [--repeat N] [--json OUT]   run scenarios against a copy of DIR
  tools/scenarios.py vet  [--repeat N]                      run every scenario N times on /repo, write seeded/SCENARIOS.json
Only scenarios listed as usable in seeded/SCENARIOS.json are run by `run` (see `vet` and tools/scenarios_benign.py)."""
import subprocess, os, sys, json, shutil, tempfile, re, time
ROOT = os.path.dirname(os.path.dirname(os.path.abspath(__file__)))
SEEDED = os.path.join(ROOT, "seeded")
TABLE = os.path.join(SEEDED, "SCENARIOS.json")


def all_scenarios():
    out = []
    for n in sorted(os.listdir(SEEDED)):
        mp = os.path.join(SEEDED, n, "meta.json")
        if not os.path.exists(mp):
            continue
        m = json.load(open(mp))
        demos = [x for x in os.listdir(os.path.join(SEEDED, n)) if x.endswith(".rs") and x != "demo.rs"]
        if len(demos) != 1:
            continue  # C18 demonstrations are separate cargo projects on another runtime feature: not part of the stand-in
        out.append({"seed": n, "prop": m["breaks_property"], "file": os.path.join(SEEDED, n, demos[0]), "test": "sc_" + re.sub(r"\W", "_", n)})
    return out


def usable():
    if not os.path.exists(TABLE):
        return {}
    return {k: v for k, v in json.load(open(TABLE)).items() if v.get("usable")}


class Bench:
    """a scratch copy of a tree with scenario tests added; removed on close"""
    def __init__(self, repo, scen, target=None):
        self.td = tempfile.mkdtemp(prefix="hannibal-scen-")
        self.rp = os.path.join(self.td, "repo")
        os.makedirs(self.rp)
        subprocess.run(["rsync", "-a", "--exclude", "target", "--exclude", ".git", repo.rstrip("/") + "/", self.rp + "/"], check=True)
        self.scen = scen
        for s in scen:
            shutil.copy(s["file"], os.path.join(self.rp, "tests", s["test"] + ".rs"))
        self.env = dict(os.environ, CARGO_NET_OFFLINE="true", CARGO_TARGET_DIR=target or os.path.join(self.td, "target"), RUST_BACKTRACE="0")
        self.built = None

    def build(self):
        """compile all scenario tests; a scenario that no longer compiles against the tree is reported as such (not as a failure)"""
        args = ["cargo", "test", "--offline", "--no-run"]
        for s in self.scen:
            args += ["--test", s["test"]]
        r = subprocess.run(args, cwd=self.rp, env=self.env, stdout=subprocess.PIPE, stderr=subprocess.STDOUT, text=True, timeout=3600)
        self.nobuild = set()
        if r.returncode != 0:
            # find which ones do not build, one by one (rare: a change of a public signature)
            for s in self.scen:
                r1 = subprocess.run(["cargo", "test", "--offline", "--no-run", "--test", s["test"]], cwd=self.rp, env=self.env, stdout=subprocess.PIPE, stderr=subprocess.STDOUT, text=True, timeout=1800)
                if r1.returncode != 0:
                    self.nobuild.add(s["test"])
        self.built = True

    def run_one(self, s, timeout=300):
        if s["test"] in self.nobuild:
            return {"result": "does-not-build"}
        t0 = time.time()
        try:
            r = subprocess.run(["cargo", "test", "--offline", "--test", s["test"]], cwd=self.rp, env=self.env, stdout=subprocess.PIPE, stderr=subprocess.STDOUT, text=True, timeout=timeout)
        except subprocess.TimeoutExpired:
            return {"result": "timeout", "secs": round(time.time() - t0, 1)}
        res = [l for l in r.stdout.split("\n") if l.startswith("test result")]
        failing = [l for l in r.stdout.split("\n") if l.startswith("test ") and l.rstrip().endswith("FAILED")]
        panics = [l.strip() for l in r.stdout.split("\n") if "panicked at" in l or l.strip().startswith("assertion") or l.strip().startswith("left:") or l.strip().startswith("right:")]
        if r.returncode == 0 and res and all("ok." in l for l in res):
            return {"result": "pass", "secs": round(time.time() - t0, 1)}
        if res and any("FAILED" in l for l in res):
            return {"result": "fail", "secs": round(time.time() - t0, 1), "failing_tests": failing[:6], "messages": panics[:8]}
        return {"result": "error", "secs": round(time.time() - t0, 1), "tail": r.stdout[-400:]}

    def close(self):
        shutil.rmtree(self.td, ignore_errors=True)


def run(repo, scen, repeat=1, confirm=3, jobs=6, target=None):
    """-> {seed: {"result": pass|fail|flaky|does-not-build|timeout|error, ...}}; `fail` means: failed in `confirm` runs out of `confirm`"""
    import concurrent.futures
    b = Bench(repo, scen, target)
    out = {}
    try:
        b.build()

        def one(s):
            runs = []
            for _ in range(repeat):
                runs.append(b.run_one(s))
            r = runs[-1]
            if any(x["result"] == "fail" for x in runs):
                # a failure counts only if it is reproducible: again until `confirm` failures in a row, a single pass makes it `flaky`
                fails = [x for x in runs if x["result"] == "fail"]
                ok = all(x["result"] == "fail" for x in runs)
                while ok and len(fails) < confirm:
                    x = b.run_one(s)
                    if x["result"] == "fail":
                        fails.append(x)
                    else:
                        ok = False
                r = dict(fails[0], result="fail" if ok else "flaky", runs=len(runs))
            return s["seed"], dict(r, test=s["test"], prop=s["prop"])
        with concurrent.futures.ThreadPoolExecutor(max_workers=jobs) as ex:
            for seed, r in ex.map(one, scen):
                out[seed] = r
    finally:
        b.close()
    return out


def main():
    a = sys.argv[1:]
    if not a:
        print(__doc__); return 2
    def opt(name, default=None):
        return a[a.index(name) + 1] if name in a else default
    if a[0] == "vet":
        rep = int(opt("--repeat", "3"))
        scen = all_scenarios()
        res = run("/repo", scen, repeat=rep, confirm=1, jobs=int(opt("--jobs", "6")))
        table = json.load(open(TABLE)) if os.path.exists(TABLE) else {}
        for s in scen:
            r = res[s["seed"]]
            ent = table.get(s["seed"], {})
            ent.update({"prop": s["prop"], "test": s["test"], "clean_tree": r["result"], "secs": r.get("secs")})
            ent["usable"] = r["result"] == "pass" and not ent.get("fails_on_benign") and not ent.get("flaky_under_load")
            table[s["seed"]] = ent
        json.dump(table, open(TABLE, "w"), indent=1, sort_keys=True)
        bad = [k for k, v in table.items() if not v["usable"]]
        print("scenarios: %d, usable %d; not usable: %s" % (len(table), len(table) - len(bad), ", ".join(bad)))
        return 0
    if a[0] == "run":
        repo = opt("--repo", "/repo")
        us = usable()
        scen = [s for s in all_scenarios() if s["seed"] in us or "--unvetted" in a]
        if "--all" not in a:
            props = (opt("--props") or "").split(",")
            scen = [s for s in scen if s["prop"] in props]
        res = run(repo, scen, repeat=int(opt("--repeat", "1")), jobs=int(opt("--jobs", "6")))
        for k, v in sorted(res.items()):
            print("%-18s %-4s %-14s %s" % (k, v["prop"], v["result"], "; ".join(v.get("failing_tests", []))[:120]))
        if opt("--json"):
            json.dump(res, open(opt("--json"), "w"), indent=1, sort_keys=True)
        return 1 if any(v["result"] == "fail" for v in res.values()) else 0
    if a[0] in ("benign", "loo"):
        # benign: every usable scenario against every behaviour-preserving tree (benign/*/out/r*/patch.diff and the corpus mutants marked
        #         harmless): a scenario that fails there asserts more than its property and is struck from the table
        # loo:    leave-one-out: every stored change the contracts leave undecided is put to the scenarios of its property EXCEPT its own
        #         demonstration: how often does the bounded stand-in catch a change it was not written for?
        import glob
        tgt = tempfile.mkdtemp(prefix="hannibal-scen-target-")
        rows = []
        try:
            if a[0] == "benign":
                patches = sorted(glob.glob(os.path.join(ROOT, "benign", "*", "out", "r*", "patch.diff")))
                cm = os.path.join(ROOT, "mutants")
                for f in sorted(os.listdir(cm)):
                    if f.endswith(".patch") and ("correct" in f or f.startswith("benign")):
                        patches.append(os.path.join(cm, f))
                extra = [x for x in a[1:] if x.endswith((".diff", ".patch"))]
                patches = extra or patches
                scen = [x for x in all_scenarios() if x["seed"] in usable()]
                jobs_ = [(pt, scen) for pt in patches]
            else:
                jobs_ = []
                for n in sorted(os.listdir(SEEDED)):
                    mp = os.path.join(SEEDED, n, "meta.json")
                    if not os.path.exists(mp):
                        continue
                    m = json.load(open(mp))
                    if (m.get("check_verdict") or {}).get("verdict") != "undecided" and "--all-seeds" not in a:
                        continue
                    scen = [x for x in all_scenarios() if x["seed"] in usable() and x["prop"] == m["breaks_property"] and x["seed"] != n]
                    jobs_.append((os.path.join(SEEDED, n, "patch.diff"), scen))
            for pt, scen in jobs_:
                td = tempfile.mkdtemp(prefix="hannibal-scen-tree-")
                try:
                    rp = os.path.join(td, "r"); os.makedirs(rp)
                    subprocess.run(["rsync", "-a", "--exclude", "target", "--exclude", ".git", "/repo/", rp + "/"], check=True)
                    pr = subprocess.run(["patch", "-p1", "-s", "-i", pt], cwd=rp, stdout=subprocess.PIPE, stderr=subprocess.STDOUT, text=True)
                    if pr.returncode:
                        print("%s PATCH-FAILED" % pt); continue
                    res = run(rp, scen, target=tgt, jobs=int(opt("--jobs", "6")))
                    bad = sorted(k for k, v in res.items() if v["result"] == "fail")
                    odd = sorted("%s:%s" % (k, v["result"]) for k, v in res.items() if v["result"] not in ("pass", "fail"))
                    name = os.path.relpath(pt, ROOT)
                    rows.append({"tree": name, "scenarios": len(scen), "failing": bad, "other": odd})
                    print("%-40s %3d scenarios, failing: %s %s" % (name, len(scen), ",".join(bad) or "-", ("other: " + ",".join(odd)) if odd else ""), flush=True)
                finally:
                    shutil.rmtree(td, ignore_errors=True)
        finally:
            shutil.rmtree(tgt, ignore_errors=True)
        if opt("--json"):
            json.dump(rows, open(opt("--json"), "w"), indent=1)
        if a[0] == "benign" and "--write" in a:
            table = json.load(open(TABLE))
            for r in rows:
                for k in r["failing"]:
                    table[k].setdefault("fails_on_benign", [])
                    if r["tree"] not in table[k]["fails_on_benign"]:
                        table[k]["fails_on_benign"].append(r["tree"])
                    table[k]["usable"] = False
            json.dump(table, open(TABLE, "w"), indent=1, sort_keys=True)
        return 0
    print(__doc__); return 2


if __name__ == "__main__":
    sys.exit(main())
