// ===== prelude/handle_stub.rs — ActorHandle as seen by units that only pass it on (proved in unit spawn) =====
#[verifier::external_body] #[verifier::accept_recursive_types(A)]
pub struct ActorHandle<A> { p: core::marker::PhantomData<A> }
impl<A> ActorHandle<A> {
    pub uninterp spec fn task(&self) -> int;
    pub uninterp spec fn has_detach(&self) -> bool;
    pub uninterp spec fn wf(&self, w: &World) -> bool;
    #[verifier::external_body]
    pub fn detach(self, Tracked(w): Tracked<&mut World>)
        requires old(w).tasks.dom().contains(self.task()), self.wf(old(w)),
        ensures self.has_detach() ==> *final(w) == (World { tasks: old(w).tasks.insert(self.task(), TaskSt::Detached), cells: final(w).cells, ..*old(w) }),
                !self.has_detach() ==> same_world(old(w), final(w))
    { unimplemented!() }
}
// what `wf` says is about the handle's cell and task only (prelude/handle_spec.rs: the definition unit spawn proves against)
pub broadcast axiom fn handle_wf_frame<A>(h: &ActorHandle<A>, a: &World, b: &World)
    requires #[trigger] h.wf(a), a.cells == b.cells, a.tasks == b.tasks
    ensures #[trigger] h.wf(b);
