#!/usr/bin/env python3
"""contracts/INDEX.json: every hannibal function that some unit proves (extract fn), with what another unit needs in order to use it as a
stub (file, path, options, the spec files that hold its contract). The driver uses it for automatic cross-unit stubs."""
import json, os, re
ROOT = os.path.dirname(os.path.dirname(os.path.abspath(__file__)))
cfg = json.load(open(os.path.join(ROOT, "config.json")))
idx = {}
for u, uc in cfg["units"].items():
    txt = open(os.path.join(ROOT, uc["unit"])).read()
    specs = []
    for l in txt.split("\n"):
        if l.startswith("spec ") or l.startswith("specref "): specs += l.split()[1:]
    types = [l[5:].strip() for l in txt.split("\n") if l.startswith("type ")]
    eager = set(); traced = set()
    for l in txt.split("\n"):
        if l.startswith("eager ") or l.startswith("eagersync "): eager |= set(l.split()[1:])
        if l.startswith("traced "): traced |= set(l.split()[1:])
    for l in txt.split("\n"):
        m = re.match(r"extract fn (\S+) (\S+)(.*)$", l)
        if not m: continue
        file, path, opts = m.group(1), m.group(2), m.group(3).split()
        if path.startswith("trait@") or "@" in path and not path.startswith(("Clone@", "From", "Default@", "Future@", "Drop@")):
            pass
        name = path.split("::")[-1]
        opts = [o for o in opts if not o.startswith(("name=", "rename=", "absent="))]
        key = path
        ent = {"unit": u, "file": file, "path": path, "opts": opts, "specs": specs, "method": name,
               "async": any(o == "async=yes" for o in opts), "types": types, "ghost": next((o.split("=")[1] for o in opts if o.startswith("ghost=")), "mut")}
        idx.setdefault(key, ent)
json.dump(idx, open(os.path.join(ROOT, "contracts", "INDEX.json"), "w"), indent=0, sort_keys=True)
print("INDEX.json:", len(idx), "functions")
