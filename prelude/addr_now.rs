// ===== prelude/addr_now.rs — `FutureExt::now_or_never` on an address =====
// `Addr<A>: Future` (addr.rs `poll`, proved in unit addr: it polls its `running` handle and maps the outcome): one poll with a no-op waker
// yields Some(outcome) exactly if the actor has terminated, Ok exactly if termination was announced as graceful; otherwise the handle is dropped
impl<A> Addr<A> {
    #[verifier::external_body]
    pub fn now_or_never(self, Tracked(w): Tracked<&mut World>) -> (r: Option<Result<(), ActorError>>)
        requires !self.running.consumed(),                                                                                   // @ob shared.no-poll-after-completion C14
        ensures r is Some <==> old(w).slots[self.running.slot()].resolved, r is Some ==> (r->0 is Ok <==> old(w).slots[self.running.slot()].ok),
            slots_only_observed(old(w), final(w))
    { unimplemented!() }
}
