// ===== prelude/environment_stub.rs — Environment as seen from the spawn entry points (contracts of unit env) =====
#[verifier::external_body] #[verifier::accept_recursive_types(A)] #[verifier::accept_recursive_types(R)]
pub struct Environment<A, R = RestartOnly> { p: core::marker::PhantomData<(A, R)> }
pub trait StrategyKind { spec fn kind() -> Kind; }
impl<A, R> Environment<A, R> {
    pub uninterp spec fn cap(&self) -> Option<usize>;
    pub uninterp spec fn cfg(&self) -> EnvironmentConfig;
}
pub open spec fn loop_created<A, R: StrategyKind>(env: &Environment<A, R>, r: &(LoopFuture<A>, Addr<A>), stream: bool, gid: int, pre: &World, post: &World) -> bool {
    &&& !pre.slots.dom().contains(r.1.running.slot())
    &&& *post == World { slots: pre.slots.insert(r.1.running.slot(), Slot { resolved: false, observed: false, ok: false }), ..*pre }
    &&& !r.1.running.consumed()
    &&& r.0.info() == LoopInfo { slot: r.1.running.slot(), kind: R::kind(), stream: stream, timeout: env.cfg().timeout, fail_on_timeout: env.cfg().fail_on_timeout, cap: env.cap(), gid: gid }
}
#[verifier::external_body] #[verifier::accept_recursive_types(A)]
pub struct Channel<A> { p: core::marker::PhantomData<A> }
impl<A> Channel<A> {
    pub uninterp spec fn cap(&self) -> Option<usize>;
    // channel.rs (proved in unit chan): the queue is created with exactly this capacity
    #[verifier::external_body] pub fn bounded(buffer: usize) -> (r: Self) ensures r.cap() == Some(buffer) { unimplemented!() }
    #[verifier::external_body] pub fn unbounded() -> (r: Self) ensures r.cap() is None { unimplemented!() }
}
impl<A: Actor, R: StrategyKind> Environment<A, R> {
    #[verifier::external_body]
    pub fn from_channel(channel: Channel<A>) -> (r: Self) ensures r.cap() == channel.cap(), r.cfg().timeout is None, !r.cfg().fail_on_timeout { unimplemented!() }
    #[verifier::external_body]
    pub fn with_config(self, config: EnvironmentConfig) -> (r: Self) ensures r.cap() == self.cap(), r.cfg() == config { unimplemented!() }
    #[verifier::external_body]
    pub fn create_loop(self, actor: A, Tracked(w): Tracked<&mut World>) -> (r: (LoopFuture<A>, Addr<A>))
        ensures loop_created(&self, &r, false, actor.gid(), old(w), final(w))
    { unimplemented!() }
    #[verifier::external_body]
    pub fn create_loop_on_stream<S>(self, actor: A, stream: S, Tracked(w): Tracked<&mut World>) -> (r: (LoopFuture<A>, Addr<A>))
        ensures loop_created(&self, &r, true, actor.gid(), old(w), final(w))
    { unimplemented!() }
}
impl<A: Actor> Environment<A, RestartOnly> {
    #[verifier::external_body] pub fn unbounded() -> (r: Self) ensures r.cap() is None, r.cfg().timeout is None, !r.cfg().fail_on_timeout { unimplemented!() }
    #[verifier::external_body] pub fn bounded(capacity: usize) -> (r: Self) ensures r.cap() == Some(capacity), r.cfg().timeout is None, !r.cfg().fail_on_timeout { unimplemented!() }
}
impl<A: Actor, R: StrategyKind> Environment<A, R> {
    // environment.rs Environment::recreating (proved in unit envctor: `env.recreating-keeps-everything`): only the strategy type changes
    #[verifier::external_body] pub fn recreating(self) -> (r: Environment<A, RecreateFromDefault>) ensures r.cap() == self.cap(), r.cfg() == self.cfg() { unimplemented!() }
}
// the three strategies and what the statement of C07 says each does (the refresh bodies are proved against this in unit env)
pub struct NonRestartable; pub struct RestartOnly; pub struct RecreateFromDefault;
impl StrategyKind for NonRestartable { open spec fn kind() -> Kind { Kind::Ignore } }
impl StrategyKind for RestartOnly { open spec fn kind() -> Kind { Kind::Same } }
impl StrategyKind for RecreateFromDefault { open spec fn kind() -> Kind { Kind::Fresh } }
#[verifier::external_body]
pub fn fresh_actor<A: Actor + Default>() -> (r: A) { unimplemented!() }
