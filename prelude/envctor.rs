// ===== prelude/envctor.rs — what the Environment constructors stand on =====
pub trait Actor: Sized { spec fn gid(&self) -> int; }
pub trait StreamHandler<M>: Actor {}
pub trait VStream: Sized { type Item; }
pub trait RestartStrategy<A: Actor> { spec fn kind() -> Kind; }
// the three strategies and what the statement of C07 says each does (the refresh bodies are proved against this in unit env)
pub struct NonRestartable; pub struct RestartOnly; pub struct RecreateFromDefault;
impl<A: Actor> RestartStrategy<A> for NonRestartable { open spec fn kind() -> Kind { Kind::Ignore } }
impl<A: Actor> RestartStrategy<A> for RestartOnly { open spec fn kind() -> Kind { Kind::Same } }
impl<A: Actor> RestartStrategy<A> for RecreateFromDefault { open spec fn kind() -> Kind { Kind::Fresh } }
// the running oneshot: created unresolved; its receiver becomes the Shared handle every address observes
#[verifier::external_body]
pub fn oneshot_channel<T>(Tracked(w): Tracked<&mut World>) -> (r: (OsSender<T>, OsReceiver<T>))
    ensures r.0.slot() == r.1.slot(), !old(w).slots.dom().contains(r.0.slot()),
            *final(w) == (World { slots: old(w).slots.insert(r.0.slot(), Slot { resolved: false, observed: false, ok: false }), ..*old(w) })
{ unimplemented!() }
#[verifier::external_body] #[verifier::accept_recursive_types(T)] pub struct OsSender<T> { p: core::marker::PhantomData<T> }
#[verifier::external_body] #[verifier::accept_recursive_types(T)] pub struct OsReceiver<T> { p: core::marker::PhantomData<T> }
impl<T> OwnView for OsSender<T> { open spec fn own(&self) -> Own { own_none() } }
impl<T> OsSender<T> { pub uninterp spec fn slot(&self) -> int; }
impl<T> OsReceiver<T> {
    pub uninterp spec fn slot(&self) -> int;
    // FutureExt::shared
    #[verifier::external_body] pub fn shared(self) -> (r: SharedOneshot) ensures r.slot() == self.slot(), !r.consumed() { unimplemented!() }
}
// Default::default() of the field types of Context / Environment
pub trait DefaultV: Sized { spec fn is_default(&self) -> bool; fn default_value() -> (r: Self) ensures r.is_default(); }
impl<K, V> DefaultV for VMap<K, V> { uninterp spec fn is_default(&self) -> bool; #[verifier::external_body] fn default_value() -> (r: Self) { unimplemented!() } }
impl<T> DefaultV for Vec<T> { open spec fn is_default(&self) -> bool { self@.len() == 0 } fn default_value() -> (r: Self) { Vec::new() } }
#[verifier::external_body] #[verifier::accept_recursive_types(K)] #[verifier::accept_recursive_types(V)] pub struct VMap<K, V> { p: core::marker::PhantomData<(K, V)> }
impl<K, V> OwnView for VMap<K, V> { open spec fn own(&self) -> Own { own_none() } }
impl<T> OwnView for Vec<T> { open spec fn own(&self) -> Own { own_none() } }
#[verifier::external_body] pub struct AbortHandleV { x: u8 }
#[verifier::external_body] pub struct TypeIdV { x: u8 }
#[verifier::external_body] pub struct AnyBoxObj { x: u8 }
#[verifier::external_body] #[verifier::accept_recursive_types(A)] pub struct PayloadStreamObj<A> { p: core::marker::PhantomData<A> }
impl<A> PayloadStreamObj<A> { pub uninterp spec fn chan(&self) -> int; }
impl<A> OwnView for PayloadStreamObj<A> { open spec fn own(&self) -> Own { own_none() } }
pub uninterp spec fn queue_cap(q: int) -> Option<usize>;
// the loop future as an object: LoopInfo is the ghost summary of what it captured (strategy type, config, queue, notifier slot, actor value)
#[verifier::external_body] #[verifier::accept_recursive_types(A)] pub struct LoopFuture<A> { p: core::marker::PhantomData<A> }
impl<A> LoopFuture<A> { pub uninterp spec fn info(&self) -> LoopInfo; pub uninterp spec fn captured(&self) -> Own; pub uninterp spec fn code(&self) -> int; }
pub trait IntoLoopFuture<A> { fn into_loop(self, Ghost(info): Ghost<LoopInfo>) -> (r: LoopFuture<A>); }
pub broadcast axiom fn own_of_actor<A: Actor>(a: &A) ensures #[trigger] own_of(a) == own_none();      // client contract: the actor value does not store a strong handle to itself
pub broadcast axiom fn own_of_stream<S: VStream>(s: &S) ensures #[trigger] own_of(s) == own_none();
// names the contracts of unit chan mention (their definitions live there)
pub uninterp spec fn fresh_queue(q: int) -> bool;
pub uninterp spec fn Channel__bounded__closure0__code() -> int; pub uninterp spec fn Channel__bounded__closure1__code() -> int;
pub uninterp spec fn Channel__unbounded__closure0__code() -> int; pub uninterp spec fn Channel__unbounded__closure1__code() -> int;
