pub trait SpawnableService<S: Spawner<Self>>: Service {}
// service.rs: `impl<A: Service> SpawnableService<DefaultSpawner> for A` (the runtime feature selects the spawner type; proved per runtime in units spawner_*)
pub struct DefaultSpawner;
impl<A: Actor> Spawner<A> for DefaultSpawner {
    uninterp spec fn drop_is_detach() -> bool;
    #[verifier::external_body] fn spawn_actor(future: LoopFuture<A>, Tracked(w): Tracked<&mut World>) -> (h: ActorHandle<A>) { unimplemented!() }
    #[verifier::external_body] fn spawn_future(future: ClosureObj, Tracked(w): Tracked<&mut World>) { unimplemented!() }
    #[verifier::external_body] fn sleep(duration: u64, Tracked(w): Tracked<&mut World>) { unimplemented!() }
}
impl<A: Service> SpawnableService<DefaultSpawner> for A {}
