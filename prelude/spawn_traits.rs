// ===== prelude/spawn_traits.rs — names the spawn unit needs =====
pub enum ActorError { AlreadyStopped, Other }
pub trait VStream: Sized { type Item; }
pub trait StreamHandler<M>: Actor {}
pub trait RestartableActor: Actor {}
pub trait Service: Actor + Default {}
