#!/bin/bash
# usage: tools/tryseed.sh <patch> <prop>...  — apply a patch to a scratch copy of /repo and run the given checks against it
patch=$1; shift
td=$(mktemp -d /tmp/hannibal-try-XXXX)
rsync -a --exclude target --exclude .git /repo/ $td/r/
( cd $td/r && patch -p1 -s -i $patch ) || { echo PATCH-FAILED; rm -rf $td; exit 3; }
for p in "$@"; do /verif/check $p --repo $td/r --no-evidence --no-replay 2>&1 | grep -E "^(VIOLATION|UNDECIDED|OK|KNOWN)" | cut -c1-330; done
rm -rf $td
