// ===== prelude/spawn.rs — join / detach closures of an ActorHandle as seen through the boxed closure objects (C17, C18) =====
pub uninterp spec fn cell_task(c: int) -> int;             // the task whose runtime join handle was put into cell c when the cell was created
pub uninterp spec fn task_outcome(t: int) -> Option<int>;  // Some(gid): the task's future returned Ok(actor value gid); None: it returned Err, panicked or was cancelled
// the join closure over its take-once cell (contract of the lifted closure body, proved per spawner in this unit)
pub open spec fn join_post<A: Actor>(c: int, pre: &World, post: &World, out: &Option<A>) -> bool {
    if pre.cells[c] {
        &&& post.lc == pre.lc && post.trace == pre.trace && shared_moved(sh(pre), sh(post)) && post.cells =~= pre.cells.insert(c, false)
        &&& (*out is Some <==> task_outcome(cell_task(c)) is Some)
        &&& (*out is Some ==> out->0.gid() == task_outcome(cell_task(c))->0)
    } else { *out is None && others_ran(pre, post) }
}
// the detach closure (only runtimes whose handle drop cancels provide one)
pub open spec fn detach_post(c: int, pre: &World, post: &World) -> bool {
    if pre.cells[c] { *post == World { cells: pre.cells.insert(c, false), tasks: pre.tasks.insert(cell_task(c), TaskSt::Detached), ..*pre } } else { *post == (World { cells: post.cells, ..*pre }) && post.cells =~= pre.cells }
}
#[verifier::external_body] #[verifier::accept_recursive_types(A)]
pub struct JoinFut<A> { p: core::marker::PhantomData<A> }
impl<A> JoinFut<A> { pub uninterp spec fn cell(&self) -> int; }
impl<A: Actor> VFuture for JoinFut<A> {
    type Output = Option<A>;
    open spec fn pre(&self, w: &World) -> bool { w.cells.dom().contains(self.cell()) }
    open spec fn done(&self, w0: &World, w1: &World, out: &Option<A>) -> bool { join_post(self.cell(), w0, w1, out) }
    open spec fn dropped(&self, w0: &World, w1: &World) -> bool { same_world(w0, w1) }
    uninterp spec fn ready_at(&self) -> nat;
    #[verifier::external_body]
    fn await_(self, Tracked(w): Tracked<&mut World>) -> (r: Option<A>) { unimplemented!() }
}
// calling the boxed join closure creates the join future (no effect yet); calling the boxed detach closure runs it
#[verifier::external_body]
pub fn call_boxed_mut<A>(f: &mut BoxedFn<(A,)>) -> (r: JoinFut<A>)
    ensures r.cell() == old(f).cap0(), *final(f) == *old(f)
{ unimplemented!() }
#[verifier::external_body]
pub fn call_boxed(f: BoxedFn<()>, Tracked(w): Tracked<&mut World>)
    requires f.code() != 0 ==> old(w).cells.dom().contains(f.cap0()),
    ensures f.code() != 0 ==> detach_post(f.cap0(), old(w), final(w)), f.code() == 0 ==> same_world(old(w), final(w))
{ unimplemented!() }
