// small text helpers
pub fn nospace(s: &str) -> String { s.chars().filter(|c| !c.is_whitespace()).collect() }

/// make a token string printed by proc-macro2 look like source again (only spacing; never changes tokens)
pub fn tidy(s: &str) -> String {
    let mut t = s.to_string();
    for (a, b) in [(" :: ", "::"), (":: ", "::"), (" ::", "::"), (" < ", "<"), ("< ", "<"), (" <", "<"), (" >", ">"), (" ,", ","), ("& ", "&"), (" ;", ";"), ("( ", "("), (" )", ")"), (" :", ":"), ("' ", "'")] {
        while t.contains(a) { t = t.replace(a, b); }
    }
    t.replace("-><", "-> <")
}
