// ===== prelude/rt_smol.rs — smol::Task: dropping it CANCELS the task; Task::detach lets it run on =====
impl<A> RtHandle<A> {
    #[verifier::external_body]
    pub fn detach(self, Tracked(w): Tracked<&mut World>)
        requires old(w).tasks.dom().contains(self.task()),
        ensures *final(w) == (World { tasks: old(w).tasks.insert(self.task(), TaskSt::Detached), ..*old(w) })
    { unimplemented!() }
}
pub open spec fn rt_drop_is_detach() -> bool { false }
impl RtBg {
    #[verifier::external_body]
    pub fn detach(self, Tracked(w): Tracked<&mut World>)
        requires old(w).tasks.dom().contains(self.task()),
        ensures *final(w) == (World { tasks: old(w).tasks.insert(self.task(), TaskSt::Detached), ..*old(w) })
    { unimplemented!() }
}
// smol::Timer::after(d): a future that completes after d
pub struct SmolTimer { pub d: u64 }
pub fn smol_timer_after(d: u64) -> (r: SmolTimer) ensures r.d == d { SmolTimer { d } }
impl VFuture for SmolTimer {
    type Output = ();
    open spec fn pre(&self, w: &World) -> bool { true }
    open spec fn done(&self, w0: &World, w1: &World, out: &()) -> bool { emits(w0, w1, Ev::Slept { d: self.d as int }) }
    open spec fn dropped(&self, w0: &World, w1: &World) -> bool { same_world(w0, w1) }
    open spec fn ready_at(&self) -> nat { self.d as nat }
    #[verifier::external_body] fn await_(self, Tracked(w): Tracked<&mut World>) -> (r: ()) { unimplemented!() }
}

// smol::Task::cancel(): cancels the task and waits for it to stop; Some(output) only if the task had ALREADY completed, None otherwise
// (a still-running actor is killed: nothing about its outcome can be concluded from a None)
#[verifier::external_body] #[verifier::accept_recursive_types(A)] pub struct CancelFut<A> { p: core::marker::PhantomData<A> }
impl<A> CancelFut<A> { pub uninterp spec fn task(&self) -> int; }
impl<A> RtHandle<A> { #[verifier::external_body] pub fn cancel(self) -> (r: CancelFut<A>) ensures r.task() == self.task() { unimplemented!() } }
impl<A: Actor> VFuture for CancelFut<A> {
    type Output = Option<DynResult<A>>;
    open spec fn pre(&self, w: &World) -> bool { true }
    open spec fn done(&self, w0: &World, w1: &World, out: &Self::Output) -> bool {
        others_ran(w0, w1) && (*out is Some && out->0 is Ok ==> task_outcome(self.task()) is Some && out->0->Ok_0.gid() == task_outcome(self.task())->0)
    }
    open spec fn dropped(&self, w0: &World, w1: &World) -> bool { same_world(w0, w1) }
    uninterp spec fn ready_at(&self) -> nat;
    #[verifier::external_body] fn await_(self, Tracked(w): Tracked<&mut World>) -> (r: Self::Output) { unimplemented!() }
}
