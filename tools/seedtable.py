#!/usr/bin/env python3
"""regenerate the table of independently seeded changes in DESIGN.md (between the SEEDTABLE markers) from seeded/*/meta.json"""
import os, json, re
ROOT = os.path.dirname(os.path.dirname(os.path.abspath(__file__)))
rows = []
for n in sorted(os.listdir(os.path.join(ROOT, "seeded"))):
    mp = os.path.join(ROOT, "seeded", n, "meta.json")
    if not os.path.exists(mp):
        continue
    m = json.load(open(mp))
    diff = open(os.path.join(ROOT, "seeded", n, "patch.diff")).read()
    files = sorted(set(re.findall(r"^\+\+\+ b/(\S+)", diff, re.M)))
    fns = []
    for h in re.findall(r"^@@ [^@]*@@ ?(.*)$", diff, re.M):
        mm = re.search(r"fn (\w+)", h)
        if mm and mm.group(1) not in fns:
            fns.append(mm.group(1))
    changed = len(re.findall(r"^[+-][^+-]", diff, re.M))
    v = m.get("check_verdict", {})
    what = ", ".join(f.replace("src/", "") for f in files) + ((" (" + ", ".join(fns[:3]) + ")") if fns else "")
    res = v.get("verdict", "?")
    det = ", ".join("`%s`" % o for o in v.get("failed_obligations", [])[:3]) if res == "detected" else (re.sub(r"^property=\w+: ", "", v.get("undecided_reason") or "")[:140].replace("|", "/") if res == "undecided" else "")
    rows.append("| %s | %s | %d | %s | %s | %s |" % (n, m["breaks_property"], changed, what, "**VIOLATION**" if res == "detected" else ("undecided (exit 2)" if res == "undecided" else "**MISSED**"), det))
tab = "| seed | property | changed lines | where | check of that property says | failing obligations / why undecided |\n|---|---|---|---|---|---|\n" + "\n".join(rows)
n_det = sum("VIOLATION" in r for r in rows); n_und = sum("undecided" in r for r in rows); n_miss = sum("MISSED" in r for r in rows)
tab += "\n\n%d changes: %d reported as VIOLATION, %d undecided (exit 2, never an alarm, never `held`), %d missed.\n" % (len(rows), n_det, n_und, n_miss)
p = os.path.join(ROOT, "DESIGN.md")
s = open(p).read()
b, e = "<!-- SEEDTABLE:BEGIN -->", "<!-- SEEDTABLE:END -->"
if b in s:
    s = s[:s.index(b) + len(b)] + "\n" + tab + s[s.index(e):]
    open(p, "w").write(s)
    print("DESIGN.md seed table updated: %d rows" % len(rows))
else:
    print(tab)
