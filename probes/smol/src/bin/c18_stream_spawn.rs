// replay probe for C18 (smol): every spawn entry point must yield an actor that keeps running after the call returned
use hannibal::prelude::*;
use std::time::Duration;
#[derive(Default)]
struct S { n: u32 }
impl Actor for S {}
impl StreamHandler<u32> for S { async fn handle(&mut self, _c: &mut Context<Self>, m: u32) { self.n += m; } }
struct Get; impl Message for Get { type Response = u32; }
impl Handler<Get> for S { async fn handle(&mut self, _c: &mut Context<Self>, _m: Get) -> u32 { self.n } }
fn main() {
    smol::block_on(async {
        let addr = hannibal::build(S::default()).on_stream(futures::stream::pending::<u32>()).spawn();
        smol::Timer::after(Duration::from_millis(50)).await;
        let r = addr.call(Get).await;
        println!("smol build().on_stream().spawn(): call after spawn -> {r:?} (expect Ok(0))");
        if r != Ok(0) { println!("REPRODUCED the actor spawned by StreamActorBuilder::spawn is cancelled when the call returns"); } else { println!("not reproduced"); }
    });
}
