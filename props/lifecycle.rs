// ===== props/lifecycle.rs — the lifecycle automaton, written from the statements of C01-C04, C07, C11, C13, C17 =====
// Pure specification. `allowed`/`step` are the oracle every traced call site of the event loops is proved against.
pub enum Ph { Fresh, Running, RestartStopped, Draining, Finished, Stopped, Done, Failed }
pub struct Lc {
    pub ph: Ph,
    pub stream: bool,            // stream-attached actor: `finished` is required before `stopped`, nothing is ever abandoned (C13)
    pub pending: Option<int>,    // payload / stream item dequeued and not yet run to completion or abandoned (C01, C02)
    pub restart_pending: bool,   // a Restart marker was dequeued and is being processed (C07)
    pub inc: nat,                // incarnation counter (C03, C07)
    pub gid: int,                // ghost identity of the current actor value (C01 fold, C07, C17)
    pub recreated: nat,          // how many times the value was replaced by `Default::default()` (C07)
    pub timers_live: bool,       // timers of the current incarnation may be live (C07)
    pub abandoned: nat,          // how many handler invocations were abandoned so far (C11; never for a stream-attached actor, C13)
    pub run_slot: int,           // the oneshot slot every Addr/WeakAddr/Context observes through `running` (C04, C14)
}
pub enum Ev {
    CbStarted { gid: int, ok: bool }, CbStopped { gid: int }, CbFinished { gid: int },
    DeqTask { pid: int }, DeqStop, DeqRestart, DeqNone, StreamItem { k: int }, StreamEnd,
    RunDone { pid: int, gid: int }, RunAbandoned { pid: int }, TimersCleared, Recreated { gid: int }, Notify,
    // events of client / timer tasks (C01, C02, C09, C10, C16); they do not move the lifecycle automaton of an actor task
    Slept { d: int }, Upgraded { chan: int }, Enq { chan: int, pid: int, force: bool }, BgRun { code: int }, Handled { mid: int }, OsSend { slot: int, val: int }, OsRecv { slot: int }, Pop { chan: int, pid: int }, PopEnd { chan: int },
}
pub open spec fn started_phase_ok(s: Lc, gid: int) -> bool { (s.ph is Fresh || s.ph is RestartStopped) && gid == s.gid }
pub open spec fn started_timers_ok(s: Lc) -> bool { !(s.ph is RestartStopped && s.timers_live) }
pub open spec fn allowed(s: Lc, e: Ev) -> bool {
    match e {
        // C03: started once per incarnation, before anything is dequeued; C07: no timer of the previous incarnation survives into it
        Ev::CbStarted { gid, ok } => started_phase_ok(s, gid) && started_timers_ok(s),
        // C01/C02: nothing is dequeued while a payload is un-run; C03: only a started, not yet stopping actor dequeues
        Ev::DeqTask { .. } | Ev::DeqStop | Ev::DeqRestart | Ev::DeqNone => s.ph is Running && s.pending is None,
        Ev::StreamItem { .. } | Ev::StreamEnd => s.ph is Running && s.stream && s.pending is None,
        // C01: exactly the dequeued payload is run, on the current actor value
        Ev::RunDone { pid, gid } => s.ph is Running && s.pending == Some(pid) && gid == s.gid,
        // C11/C13: only plain actors ever abandon an invocation
        Ev::RunAbandoned { pid } => s.ph is Running && s.pending == Some(pid) && !s.stream,
        // C03: stopped after the last handler; for streams only after finished; C07: or as first half of a restart
        Ev::CbStopped { gid } => gid == s.gid && s.pending is None && ((s.ph is Running && s.restart_pending) || (s.ph is Draining && !s.stream) || (s.ph is Finished && s.stream)),
        Ev::CbFinished { gid } => gid == s.gid && s.pending is None && s.ph is Draining && s.stream,
        Ev::TimersCleared => true,
        // C07: the value is replaced only between `stopped` of the old and `started` of the new incarnation
        Ev::Recreated { .. } => s.ph is RestartStopped,
        // C04: termination is announced only after `stopped` has returned
        Ev::Notify => s.ph is Stopped,
        Ev::Slept { .. } | Ev::Upgraded { .. } | Ev::Enq { .. } | Ev::BgRun { .. } | Ev::Handled { .. } | Ev::OsSend { .. } | Ev::OsRecv { .. } | Ev::Pop { .. } | Ev::PopEnd { .. } => true,
    }
}
pub open spec fn step(s: Lc, e: Ev) -> Lc {
    match e {
        Ev::CbStarted { gid, ok } => if ok { Lc { ph: Ph::Running, inc: s.inc + 1, restart_pending: false, timers_live: true, ..s } } else { Lc { ph: Ph::Failed, ..s } },
        Ev::DeqTask { pid } => Lc { pending: Some(pid), restart_pending: false, ..s },
        Ev::StreamItem { k } => Lc { pending: Some(k), restart_pending: false, ..s },
        Ev::DeqStop | Ev::DeqNone | Ev::StreamEnd => Lc { ph: Ph::Draining, restart_pending: false, ..s },
        Ev::DeqRestart => Lc { restart_pending: true, ..s },
        Ev::RunDone { .. } => Lc { pending: None, ..s },
        Ev::RunAbandoned { .. } => Lc { pending: None, abandoned: s.abandoned + 1, ..s },
        // a callback may register timers through its context: whatever `stopped` registered is live afterwards (so timers must be cleared
        // AFTER `stopped`, not before it)
        Ev::CbStopped { gid } => if s.ph is Running { Lc { ph: Ph::RestartStopped, timers_live: true, ..s } } else { Lc { ph: Ph::Stopped, timers_live: true, ..s } },
        Ev::CbFinished { .. } => Lc { ph: Ph::Finished, ..s },
        Ev::TimersCleared => Lc { timers_live: false, ..s },
        Ev::Recreated { gid } => Lc { gid: gid, recreated: s.recreated + 1, ..s },
        Ev::Notify => Lc { ph: Ph::Done, ..s },
        Ev::Slept { .. } | Ev::Upgraded { .. } | Ev::Enq { .. } | Ev::BgRun { .. } | Ev::Handled { .. } | Ev::OsSend { .. } | Ev::OsRecv { .. } | Ev::Pop { .. } | Ev::PopEnd { .. } => s,
    }
}
