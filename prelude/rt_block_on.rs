// ===== prelude/rt_block_on.rs — tokio::runtime::{Runtime, Builder} as far as `runtime::block_on` uses them (read from tokio 1.x docs:
// `Runtime::new()` = multi-thread scheduler with the I/O and time drivers enabled; a `Builder` starts with NO driver enabled;
// timers (`tokio::time::sleep`, which every actor timer and handler-timeout of the tokio spawner rests on) panic without the time driver) =====
// `multi`: worker threads run spawned tasks beside the thread that sits in `block_on` (as async-std's and smol's executors do); a
// current-thread runtime runs them only while the main future is suspended
pub struct TokioRuntime { pub time: bool, pub io: bool, pub multi: bool }
pub struct RtBuilder { pub time: bool, pub io: bool, pub multi: bool }
#[derive(Debug)] pub struct IoError;
#[verifier::external_body]
pub fn runtime_new() -> (r: Result<TokioRuntime, IoError>) ensures r is Ok, r->Ok_0.time && r->Ok_0.io && r->Ok_0.multi { unimplemented!() }
impl RtBuilder {
    pub fn new_multi_thread() -> (r: RtBuilder) ensures !r.time && !r.io && r.multi { RtBuilder { time: false, io: false, multi: true } }
    pub fn new_current_thread() -> (r: RtBuilder) ensures !r.time && !r.io && !r.multi { RtBuilder { time: false, io: false, multi: false } }
    // the real methods take `&mut self` and return `&mut Self`; a chain on a temporary reads the same
    pub fn enable_all(self) -> (r: RtBuilder) ensures r.time && r.io && r.multi == self.multi { RtBuilder { time: true, io: true, multi: self.multi } }
    pub fn enable_time(self) -> (r: RtBuilder) ensures r.time && r.io == self.io && r.multi == self.multi { RtBuilder { time: true, io: self.io, multi: self.multi } }
    pub fn enable_io(self) -> (r: RtBuilder) ensures r.io && r.time == self.time && r.multi == self.multi { RtBuilder { time: self.time, io: true, multi: self.multi } }
    pub fn worker_threads(self, n: usize) -> (r: RtBuilder) ensures r == self { self }
    pub fn thread_name(self, n: &str) -> (r: RtBuilder) ensures r == self { self }
    pub fn thread_stack_size(self, n: usize) -> (r: RtBuilder) ensures r == self { self }
    pub fn max_blocking_threads(self, n: usize) -> (r: RtBuilder) ensures r == self { self }
    #[verifier::external_body]
    pub fn build(self) -> (r: Result<TokioRuntime, IoError>) ensures r is Ok, r->Ok_0.time == self.time && r->Ok_0.io == self.io && r->Ok_0.multi == self.multi { unimplemented!() }
}
impl TokioRuntime {
    // drives the future to completion on this runtime; everything the future (and the actors it spawns) does with timers needs the time driver
    #[verifier::external_body]
    pub fn block_on<F: VFuture>(&self, future: F, Tracked(w): Tracked<&mut World>) -> (r: F::Output)
        requires future.pre(old(w)),
            self.time,                                                                         // @ob runtime.block-on-runs-with-the-time-driver-the-timers-need C18,C10,C11
            self.multi,                                                                        // @ob runtime.block-on-leaves-spawned-actors-their-own-threads-as-the-other-runtimes-do C18
        ensures future.done(old(w), final(w), &r)
    { unimplemented!() }
}
