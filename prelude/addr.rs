// ===== prelude/addr.rs — what the address unit stands on: the submit closures (contracts proved in unit chan), client traits, payload objects =====
impl<A> ArcForceTx<A> {
    // ForceTxFn::send: the force closure of the channel (contract = the lifted closure bodies Channel__*__closure1 of unit chan)
    #[verifier::external_body]
    pub fn send(&self, msg: Payload<A>, Tracked(w): Tracked<&mut World>) -> (r: Result<(), ActorError>)
        ensures submit_post(self.chan(), pid_of(&msg), true, old(w), final(w), r is Ok)
    { unimplemented!() }
}
impl<A> ArcTx<A> {
    // TxFn::send(..).await: the waiting closure of the channel (contract = Channel__*__closure0 of unit chan)
    #[verifier::external_body]
    pub fn send(&self, msg: Payload<A>, Tracked(w): Tracked<&mut World>) -> (r: Result<(), ActorError>)
        ensures submit_post(self.chan(), pid_of(&msg), false, old(w), final(w), r is Ok)
    { unimplemented!() }
}
#[verifier::external_body] #[verifier::accept_recursive_types(A)]
pub struct Context<A> { p: core::marker::PhantomData<A> }
pub trait Actor: Sized { spec fn gid(&self) -> int; }
pub trait RestartableActor: Actor {}
pub uninterp spec fn mid_of<M>(m: &M) -> int;              // ghost identity of a message value
pub uninterp spec fn handler_result(mid: int) -> int;      // the value the handler invocation for message `mid` produces
pub trait Message: Sized { type Response; }
// client contract: a handler invocation appends its own Handled event and produces *the* result for that message
pub trait Handler<M: Message>: Actor {
    fn handle(&mut self, ctx: &mut Context<Self>, msg: M, Tracked(w): Tracked<&mut World>) -> (r: M::Response)
        ensures emits(old(w), final(w), Ev::Handled { mid: mid_of(&msg) }), rid(&r) == handler_result(mid_of(&msg)), final(self).gid() == old(self).gid();
}
// payload objects: which closure literal, for which message, answering on which slot (C02)
pub struct PayloadDesc { pub code: int, pub mid: int, pub slot: int }
pub uninterp spec fn payload_desc(pid: int) -> PayloadDesc;
#[verifier::external_body] #[verifier::accept_recursive_types(A)] pub struct TaskFnObj<A> { p: core::marker::PhantomData<A> }
impl<A> TaskFnObj<A> { pub uninterp spec fn pid(&self) -> int; }
pub uninterp spec fn task_uid(code: int, cap0: int, cap1: int) -> int;   // ghost identity of a payload closure object: which literal over which message and slot
impl ClosureObj { pub open spec fn uid(&self) -> int { task_uid(self.code(), self.cap0(), self.cap1()) } }
impl<A> BoxNew<ClosureObj> for TaskFnObj<A> {
    open spec fn boxed_ok(t: &ClosureObj, r: &Self) -> bool { r.pid() == t.uid() && payload_desc(r.pid()) == PayloadDesc { code: t.code(), mid: t.cap0(), slot: t.cap1() } }
    #[verifier::external_body] fn box_new_(t: ClosureObj) -> (r: Self) { unimplemented!() }
}
pub open spec fn ppid<A>(p: &Payload<A>) -> int { match p { Payload::Task(f) => f.pid(), Payload::Stop => -1int, Payload::Restart => -2int } }
pub broadcast axiom fn pid_of_payload<A>(p: &Payload<A>) ensures #[trigger] pid_of(p) == ppid(p);
// client contract (§5.2): a message value owns nothing of hannibal's channels (it holds no handle to the actor it is sent to)
pub broadcast axiom fn own_of_message<M: Message>(m: &M) ensures #[trigger] own_of(m) == own_none();
