#!/usr/bin/env python3
"""regenerate MANIFEST.json from config.json (single source of truth for what is claimed)"""
import json, os
ROOT = os.path.dirname(os.path.dirname(os.path.abspath(__file__)))
cfg = json.load(open(os.path.join(ROOT, "config.json")))
ids = [json.loads(l)["id"] for l in open(os.path.join(ROOT, "properties.jsonl")) if l.strip()]
checks = []
for pid in ids:
    pc = cfg["properties"].get(pid)
    if not pc or not pc.get("claimed", True):
        continue
    checks.append({
        "property_id": pid,
        "quick_cmd": "./check %s --tier quick" % pid,
        "thorough_cmd": "./check %s --tier thorough" % pid,
        "evidence_file": "/verif/evidence/%s.json" % pid,
        "replay_cmd_template": "./check %s --replay {path}" % pid,
        "engine": "verus",
        "level_claimed": {"category": "proof", "text": pc["level_text"], "design_ref": pc.get("design_ref", "DESIGN.md §10 " + pid)},
        "level_note": pc["level_note"],
        "technique": pc.get("technique", "contract-based deductive verification: Verus discharges requires/ensures/loop invariants on functions re-extracted from /repo on every run (bounded stand-in only where the contracts are undecided on a changed tree: stored client scenarios run against the real crate, labelled bounded)"),
    })
na = []
for pid in ids:
    pc = cfg["properties"].get(pid)
    if pc and pc.get("claimed", True):
        continue
    na.append({"property_id": pid, "reason": cfg["not_applicable"].get(pid, "not claimed")})
man = {
    "version": 1,
    "setup_cmd": "cd hx && CARGO_NET_OFFLINE=true cargo build --release --offline",
    "hooks": {"guard": "none", "enable": "no hooks: the machinery reads /repo source text and never builds it with instrumentation", "baseline_off_cmd": "cd /repo && cargo test --workspace --no-fail-fast --offline", "source_commits": [], "add_only": True},
    "engines": [{"name": "verus", "path": "/verif/check", "serves_properties": [c["property_id"] for c in checks], "kind_free_text": "hx (syn-based extractor, /verif/hx) re-extracts the functions under contract from /repo and splices /verif/contracts/*.spec; Verus 0.2026.09.13 (Z3) discharges every obligation; /verif/check maps failures to named obligations"}],
    "checks": checks,
    "notes": cfg.get("manifest_notes", ""),
    "not_applicable": na,
}
json.dump(man, open(os.path.join(ROOT, "MANIFEST.json"), "w"), indent=1)
print("MANIFEST.json: %d checks, %d not applicable" % (len(checks), len(na)))
