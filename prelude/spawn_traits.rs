// ===== prelude/spawn_traits.rs — names the spawn unit needs =====
pub enum ActorError { AlreadyStopped, ServiceStillRunning, Timeout, SendFailed, Other }
pub trait VStream: Sized { type Item; }
pub trait StreamHandler<M>: Actor {}
pub trait RestartableActor: Actor {}
pub trait Service: Actor + Default {
    // service.rs Service::already_running (proved in unit svc: already_running.*): reads the registry under the lock, changes nothing
    fn already_running(Tracked(w): Tracked<&mut World>) -> (r: Option<bool>)
        ensures final(w).tasks == old(w).tasks && final(w).task_info == old(w).task_info, final(w).registry == final(w).reg_acq, final(w).reg_evictions == old(w).reg_evictions,
            final(w).slots.dom() =~= final(w).slots.dom().union(old(w).slots.dom()),
            !final(w).reg_acq.dom().contains(type_id::<Self>()) ==> r is None,
            final(w).reg_acq.dom().contains(type_id::<Self>()) ==> r == Some(reg_live(final(w), final(w).reg_acq, type_id::<Self>()));
}
