#!/usr/bin/env python3
"""tools/mkfns.py: contracts/FNS.txt, the names of all functions of the pinned tree (/repo as committed). A function whose name is not in
this list is a helper an edit added; rule H1 of the extractor inlines calls of such helpers (see DESIGN.md I.3)."""
import os, re, subprocess, sys
ROOT = os.path.dirname(os.path.dirname(os.path.abspath(__file__)))
names = set()
files = subprocess.run(["git", "-C", "/repo", "ls-files", "src"], stdout=subprocess.PIPE, text=True, check=True).stdout.split()
for f in files:
    if not f.endswith(".rs"):
        continue
    src = subprocess.run(["git", "-C", "/repo", "show", "HEAD:" + f], stdout=subprocess.PIPE, text=True, check=True).stdout
    names.update("%s %s" % (f, n) for n in re.findall(r"\bfn\s+([A-Za-z_]\w*)", src))
open(os.path.join(ROOT, "contracts", "FNS.txt"), "w").write("# <file> <name> of every function in /repo/src at the pinned commit (tools/mkfns.py)\n" + "\n".join(sorted(names)) + "\n")
print("contracts/FNS.txt: %d functions" % len(names))
